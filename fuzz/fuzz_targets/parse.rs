#![no_main]
//! C17 (totality of the command parser), coverage-guided: any byte string is either parsed or
//! rejected with an error - never a panic, never unbounded time (libFuzzer -timeout) - and parsing
//! is a pure function of the text (two parses agree).
use libfuzzer_sys::fuzz_target;
use snel_db::command::parser::command::parse_command;

fuzz_target!(|data: &[u8]| {
    // the front ends hand the parser one line of (lossily decoded) text
    let text = String::from_utf8_lossy(data);
    let line = text.lines().next().unwrap_or("");
    if line.len() > 512 {
        return;
    }
    let a = parse_command(line);
    let b = parse_command(line);
    match (&a, &b) {
        (Ok(x), Ok(y)) => assert!(x == y, "parse is not deterministic"),
        (Err(_), Err(_)) => {}
        _ => panic!("parse is not deterministic (ok / error)"),
    }
});
