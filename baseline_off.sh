#!/bin/sh
# Runs the repository's pinned test suite with the verification guard OFF (no --cfg sneldb_verif)
# and checks that every test of BASELINE.json's stable_pass list passes.
set -u
cd /repo || exit 2
LOG=${1:-/verif/harness/target/baseline_off.log}
mkdir -p "$(dirname "$LOG")"
unset RUSTFLAGS
CARGO_NET_OFFLINE=true cargo nextest run --workspace --no-fail-fast --test-threads 8 --offline >"$LOG" 2>&1
python3 - "$LOG" <<'PY'
import json,re,sys
b=json.load(open('/root/.vp/BASELINE.json'))
sp=set(b['stable_pass'])
ok=set()
for l in open(sys.argv[1], errors='replace'):
    m=re.search(r'\bPASS\s+\[[^\]]*\]\s+(?:\([^)]*\)\s+)?(\S+)\s+(\S+)\s*$',l)
    if m: ok.add(m.group(1)+'::'+m.group(2))
missing=sorted(t for t in sp if t not in ok)
print("stable_pass=%d passed_now=%d missing=%d"%(len(sp),len(ok),len(missing)))
for t in missing[:20]: print("  MISSING",t)
sys.exit(0 if not missing else 1)
PY
