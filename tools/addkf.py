#!/usr/bin/env python3
"""usage: addkf.py PROP ID CLASS SIGNATURE VIOLFILE 'what'  - moves a violation file to known-<ID>.json and registers the finding"""
import json,sys,os,shutil
prop,id,cls,sig,viol,what=sys.argv[1:7]
dst='replays/%s/known-%s.json'%(prop,id)
shutil.move(viol,os.path.join('/verif',dst))
d=json.load(open('/verif/known_findings.json'))
d['findings']=[f for f in d['findings'] if f['id']!=id]
d['findings'].append({"property":prop,"id":id,"status":"open","what":what,"class":cls,"replay":dst,"signature":sig})
json.dump(d,open('/verif/known_findings.json','w'),indent=1)
print("registered",id)
