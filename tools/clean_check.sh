#!/bin/sh
# run ./check while no seeded trial holds /repo's working tree (see try_seeded.sh)
exec flock /tmp/verif-repo-tree.lock "$(dirname "$0")/../check" "$@"
