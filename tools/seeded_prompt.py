# Round-six helper: prints the sub-agent prompt for one property. Expects /tmp/mut/tools/prop-<id>.json (the property text) and avoid-<id>.txt (earlier mechanisms), worktree /tmp/mut/<id>f. Copy to /tmp/mut/tools before use.
import sys,json
p=sys.argv[1]; wt=f"/tmp/mut/{p}f"
prop=open(f"/tmp/mut/tools/prop-{p}.json").read()
avoid=open(f"/tmp/mut/tools/avoid-{p}.txt").read()
print(f"""You are helping to evaluate how sensitive a verification effort is. The subject is SnelDB (sneldb/sneldb), a single-node append-only event database in Rust. You have your own scratch git worktree of it at {wt} (detached HEAD). Work ONLY inside {wt} and /tmp/mut/{p}f-out (create it). Never touch /repo, /verif or other directories under /tmp/mut. Do NOT use `git stash` (it is shared across worktrees). There is no network.

Here is a semantic property of SnelDB that users rely on (JSON):

{prop}

YOUR TASK: produce ONE realistic change to the source under {wt}/src that BREAKS this property, while
 (1) the crate still compiles,
 (2) the existing test suite still passes (run `/tmp/mut/tools/suite.sh {wt}`; it prints `stable_pass=2757 passed_now=... missing=N`; you need missing=0. About ten tests in `read::flow::*` and the xor filter tests are load-flaky: if only those are missing, re-run them alone with `cd {wt} && CARGO_TARGET_DIR={wt}/target cargo nextest run --offline <filter>` and report that),
 (3) the change looks like something a maintainer could plausibly write (an 'optimisation', 'simplification', refactor, off-by-one, forgotten case), not sabotage, and
 (4) it needs something SPECIFIC to manifest: a particular interleaving, a crash or fault at a particular point, a multi-step sequence of operations, an unusual input or configuration, or two cooperating sites that each look fine alone. Changes that any ordinary use would expose at once are not wanted.

The following changes have ALREADY been made by others for this property; yours must be different in location and mechanism (a different file/function and a different way of manifesting):
{avoid}

Then write a DEMONSTRATION: a small program or test (e.g. an example under {wt}/examples/, or a shell script driving the server binary, or a new test file) that FAILS (or prints an observably wrong result) with your change and PASSES without it. Run it both ways (use `git diff > patch; git apply -R` / re-apply, not git stash) and keep both outputs.

Practical notes:
- Build cache: a warm target directory is being prepared; wait until the file {wt}/.target-ready exists (a few minutes; read code meanwhile), then always build with `CARGO_TARGET_DIR={wt}/target CARGO_NET_OFFLINE=true cargo ... --offline`. Do not build before that file exists.
- The engine can be hosted in-process: set env SNELDB_CONFIG=<abs path to a toml config> (see {wt}/config/*.toml; the config is a process-global, so one config per process), `FrontendContext::from_config().await`, then `parse_command(line)` and `dispatch_command(...)`; look at {wt}/src/frontend and {wt}/src/command/dispatcher.rs and at the existing examples/tests for the exact signatures. A restart is a new process on the same directories; a crash is kill -9. The tree contains crash-point hooks compiled only under `RUSTFLAGS='--cfg sneldb_verif'` (grep for sneldb_verif) which you may use in your demonstration.
- You have about 30 minutes in total. Budget: 10 min reading and choosing, 10 min implementing + demonstration, 10 min suite. Prefer a small change you can finish over an ambitious one. Other agents share this 16-core machine, so keep builds to what you need.

DELIVERABLES in /tmp/mut/{p}f-out/:
 - patch.diff  (`git -C {wt} diff -- src` of your change ONLY: source change under src/, no demonstration files in it)
 - the demonstration file(s), plus demo_patched.txt and demo_original.txt (its output with and without the change)
 - meta.json with keys: "property" ("{p}"), "summary" (what was changed and why it breaks the property), "files" (list of changed source files), "needs" (precisely what is needed for it to manifest), "demo_cmd" (how to run the demonstration), "tests" (the summary line printed by suite.sh with your change applied)
Leave your change applied in {wt} when you finish. Your final message should repeat the summary, the needs and the suite line.""")
