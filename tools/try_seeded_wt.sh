#!/bin/sh
# usage: try_seeded_wt.sh <worktree-with-change> <outdir> <tier> <Cxx> [<Cxx> ...]
# Parallel-safe variant of try_seeded.sh: instead of patching /repo's working tree it runs a scratch COPY of /verif
# (committed files + the warm harness build) whose harness depends on <worktree> - a scratch worktree of /repo that
# carries the seeded change. /repo and /verif are left untouched; the copy is removed afterwards.
set -u
WT=$1; OUT=$2; TIER=$3; shift 3
mkdir -p "$OUT"
mkdir -p /tmp/mut; CP=$(mktemp -d /tmp/mut/verifcp-XXXXXX)
rsync -a --exclude harness/target/cases --exclude 'fuzz/target' --exclude .git /verif/ "$CP/"
sed -i "s#path = \"/repo\"#path = \"$WT\"#" "$CP/harness/Cargo.toml" "$CP/fuzz/Cargo.toml"
cd "$CP" || exit 2
for c in "$@"; do
  echo "== $c ($TIER) against $WT"
  ./check $c --tier $TIER ${SEED:+--seed $SEED} > "$OUT/run-$c.log" 2>&1
  code=$?
  grep -E "^VIOLATION|signature=|^C[0-9][0-9] tier|^NOTE|BUILD FAILED" "$OUT/run-$c.log" | cut -c1-300
  echo "   exit=$code"
  for f in replays/$c/viol-*.json; do [ -f "$f" ] && cp "$f" "$OUT/caught-by-$c-$(basename $f)"; done
done
cd /; rm -rf "$CP"
