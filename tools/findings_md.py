#!/usr/bin/env python3
"""Regenerates the 'Findings' section of DESIGN.md (between the markers) from known_findings.json."""
import json,re,subprocess
d=json.load(open('/verif/known_findings.json'))
out=[]
out.append("### 7.1 Repaired defects (`fix:` commits in /repo)\n")
out.append("Each was first reported by the named check on the then-current tree, reproduced against the real code, repaired by one minimal unguarded commit, and the pinned suite (guard off) passed after it. The replay file is kept as a regression input: it must pass, and the entry suppresses nothing.\n")
out.append("| property | commit | what failed | regression input |\n|---|---|---|---|")
for f in d['findings']:
    if f['status']=='fixed':
        out.append("| %s | `%s` | %s | `%s` |"%(f['property'],f.get('commit',''),f['what'].replace('|','\\|'),f.get('replay','')))
out.append("\n### 7.2 Open known findings (recorded, not repaired)\n")
out.append("Genuine defects whose repair is not small (format or design changes, or a policy decision). Each is keyed on a failure signature and a replay input; the check prints one `KNOWN-FINDING:` line per entry and keeps exploring with the finding's input class excluded by construction (counted as `excluded_known` in the evidence). A violation outside the listed classes is still reported.\n")
out.append("| property | id | input class excluded | what fails |\n|---|---|---|---|")
for f in d['findings']:
    if f['status']=='open':
        out.append("| %s | %s | `%s` | %s |"%(f['property'],f['id'],f.get('class',''),f['what'].replace('|','\\|')))
text="\n".join(out)+"\n"
p='/verif/DESIGN.md'; s=open(p).read()
a='<!-- FINDINGS:BEGIN -->'; b='<!-- FINDINGS:END -->'
if a in s:
    s=s[:s.index(a)+len(a)]+"\n"+text+s[s.index(b):]
    open(p,'w').write(s)
    print("updated", len(out), "lines")
else:
    print("markers missing")
