#!/bin/sh
# usage: suite.sh <worktree> : runs the pinned test suite in <worktree> (own target dir <worktree>/target), prints stable_pass summary
set -u
WT=$1
cd $WT || exit 2
unset RUSTFLAGS
LOG=$WT/.suite.log
CARGO_TARGET_DIR=$WT/target CARGO_NET_OFFLINE=true cargo nextest run --workspace --no-fail-fast --test-threads 4 --offline >"$LOG" 2>&1
python3 - "$LOG" <<'PY'
import json,re,sys
b=json.load(open('/root/.vp/BASELINE.json'))
sp=set(b['stable_pass'])
ok=set()
for l in open(sys.argv[1], errors='replace'):
    m=re.search(r'\bPASS\s+\[[^\]]*\]\s+(?:\([^)]*\)\s+)?(\S+)\s+(\S+)\s*$',l)
    if m: ok.add(m.group(1)+'::'+m.group(2))
missing=sorted(t for t in sp if t not in ok)
print("stable_pass=%d passed_now=%d missing=%d"%(len(sp),len(ok),len(missing)))
for t in missing[:30]: print("  MISSING",t)
PY
