#!/bin/sh
cd /tmp/mut/seedwt && unset RUSTFLAGS && CARGO_TARGET_DIR=/tmp/mut/target-seed CARGO_NET_OFFLINE=true cargo nextest run --workspace --no-run --offline > /tmp/mut/seed.log 2>&1
for p in C01 C03 C05 C09 C10 C13 C15 C19; do cp -a /tmp/mut/target-seed /tmp/mut/${p}f/target; touch /tmp/mut/${p}f/.target-ready; done
echo done >> /tmp/mut/seed.log
