#!/bin/sh
# usage: baseline_at.sh <commit> : runs the pinned suite (guard OFF) on a scratch worktree of /repo at <commit>
# (scratch under /tmp, removed afterwards; build cache /tmp/bltarget is reused between runs - remove it when done)
set -u
C=$1
WT=/tmp/blwt-$C
git -C /repo worktree remove --force $WT 2>/dev/null
git -C /repo worktree add -q --detach $WT $C || exit 2
cd $WT || exit 2
unset RUSTFLAGS
LOG=/tmp/bl-$C.log
CARGO_TARGET_DIR=/tmp/bltarget CARGO_NET_OFFLINE=true cargo nextest run --workspace --no-fail-fast --test-threads 6 --offline >"$LOG" 2>&1
python3 - "$LOG" <<'PY'
import json,re,sys
b=json.load(open('/root/.vp/BASELINE.json'))
sp=set(b['stable_pass'])
ok=set()
for l in open(sys.argv[1], errors='replace'):
    m=re.search(r'\bPASS\s+\[[^\]]*\]\s+(?:\([^)]*\)\s+)?(\S+)\s+(\S+)\s*$',l)
    if m: ok.add(m.group(1)+'::'+m.group(2))
missing=sorted(t for t in sp if t not in ok)
print("stable_pass=%d passed_now=%d missing=%d"%(len(sp),len(ok),len(missing)))
for t in missing[:20]: print("  MISSING",t)
PY
cd /; git -C /repo worktree remove --force $WT
