#!/usr/bin/env python3
"""Regenerates DESIGN.md section 8 (seeded changes x checks) from /verif/seeded/*/meta.json."""
import json,glob,os
rows=[]
for p in sorted(glob.glob('/verif/seeded/*/meta.json')):
    m=json.load(open(p)); name=os.path.basename(os.path.dirname(p)); v=m.get('verif',{})
    caught='; '.join('**%s** `%s`'%(c,s) for c,s in v.get('caught_by',{}).items()) or '**not caught** (see below)'
    rows.append((name,m.get('property',''),', '.join(m.get('files',[])),m.get('summary','').split('. ')[0][:260],m.get('needs','')[:260],caught,('yes, still' if v.get('not_caught') else 'yes → strengthened') if v.get('initially_missed') else 'no',v.get('strengthened','') or v.get('not_caught','')))
out=[]
out.append("Each seeded change was produced by a fresh sub-agent that saw only the property text and a scratch worktree of /repo (nothing from /verif), asked for a realistic defect that compiles, keeps the pinned suite green (`missing=0` against `stable_pass`) and needs something specific to manifest. I re-ran the suite on each worktree, applied the patch to /repo's working tree (`tools/try_seeded.sh`, which always reverts), ran the quick tier of the property's check (and of neighbouring checks where relevant) and kept patch, the agent's demonstration and the verdicts under `/verif/seeded/<id>/`. No change is committed in /repo. Round six (ids ending in -f) was first tried in parallel with `tools/try_seeded_wt.sh` (a scratch copy of /verif built against the scratch worktree that carries the change) and then confirmed once more through `tools/try_seeded.sh` on /repo's working tree.\n")
out.append("| id | files | change (first sentence) | needs | caught by (signature) | missed at first? |\n|---|---|---|---|---|---|")
for r in rows:
    out.append("| %s | `%s` | %s | %s | %s | %s |"%(r[0],r[2],r[3].replace('|','\\|'),r[4].replace('|','\\|'),r[5],r[6]))
out.append("\n**Checks strengthened because a seeded change was missed:**\n")
for r in rows:
    if r[7]: out.append("* **%s** — %s"%(r[0],r[7]))
text="\n".join(out)+"\n"
p='/verif/DESIGN.md'; s=open(p).read()
a='<!-- SEEDED:BEGIN -->'; b='<!-- SEEDED:END -->'
s=s[:s.index(a)+len(a)]+"\n"+text+s[s.index(b):]
open(p,'w').write(s); print("rows",len(rows))
