#!/usr/bin/env python3
"""Regenerates /verif/MANIFEST.json from the table below (kept valid at all times)."""
import json, subprocess
props=[json.loads(l)['id'] for l in open('/verif/properties.jsonl')]
T='property-based testing (proptest generators, shrinking, replay files)'
CLAIMED={
 "C02":("exploration","generated schemas, histories, storage layouts and WHERE/FOR/SINCE queries; every answer is compared with a three-valued reference evaluator in both directions and with the same query on the same data in every other layout","reference evaluator demands only what the documentation forces (EITHER for null cells, string ordering, unknown fields); observations at quiescent states; open known findings are excluded by construction and counted",T+" against a reference model + layout-metamorphic oracle"),
 "C07":("exploration","generated schemas over every field type, edge-heavy values and histories; QUERY / REPLAY / QUERY RETURN[...] are compared cell by cell (by column name) with the stored values at every storage tier, core fields with their first observation","numbers compared numerically, strings byte-identical; response frames decoded by an exactly-rounding JSON reader of the harness; open known findings excluded by construction",T+" with a round-trip oracle across storage tiers"),
 "C01":("fault_enumeration","generated histories of STORE / sync / FLUSH / compaction / clean restart with SIGKILL and armed crash points at named step boundaries (WAL append / rotation, memtable rotation, flush file writes, index save, publication, WAL pruning, compaction output, hand-over, reclaim); a new process on the same directories must return every acknowledged+visible+WAL-drained event exactly once with its payload, COUNT must equal the selection, never-acknowledged events at most once","process crash (SIGKILL), not power loss; crash points are the hook step boundaries; with a buffered WAL the crash clause is the per-shard prefix rule; open known findings (WAL pruning keyed on segment ids, death during flush / compaction) are excluded by construction",T+" with crash-point injection and a durable-set reference model"),
 "C05":("exploration","generated multi-type histories (types in different subsets of segments), fan-in 2-4, repeated compaction rounds through the production CompactionWorker; before/after every round QUERY, COUNT, COUNT BY context_id and typed REPLAY are compared with the model per type and context; retired inputs must leave the live list and the disk","rounds are single passes triggered by the compact_shard hook (production planner, worker, hand-over); crash clause explored by the C01/C11 histories",T+" with a reference model over compaction rounds"),
 "C11":("fault_enumeration","the C01 history generator with a monitor that snapshots, after every command and after every restart, the decoded segments.idx (own decoder), the live segment list and (len, sha256) of every file of every segment directory; invariants: index always decodes, every named segment exists and is complete, visible segments never change, retired ids are not reused","observation instants are the gaps between driver commands and the first instant after each restart; open known findings excluded by construction",T+" with a file-hash invariant monitor over crash histories"),
}
REASONS={}
hooks_commits=subprocess.run("git -C /repo log --format=%h --grep='^verif:'",shell=True,capture_output=True,text=True).stdout.split()
m={"version":1,
 "setup_cmd":"cd /verif/harness && CARGO_NET_OFFLINE=true cargo build",
 "hooks":{"guard":"--cfg sneldb_verif","enable":"rustflags = [\"--cfg\",\"sneldb_verif\"] in /verif/harness/.cargo/config.toml; the harness depends on snel_db by path (/repo), so every check command rebuilds /repo's working tree with the hooks compiled in","baseline_off_cmd":"/verif/baseline_off.sh","source_commits":hooks_commits,"add_only":True},
 "engines":[{"name":"vcheck","path":"/verif/harness","serves_properties":sorted(CLAIMED),"kind_free_text":"proptest-driven generators + reference model + worker processes hosting the real engine (one process per database lifetime), hooks for crash / pause / clock / compaction"}],
 "checks":[],"notes":"see DESIGN.md; known findings in /verif/known_findings.json","not_applicable":[]}
for p in props:
    if p in CLAIMED:
        lvl,text,note,tech=CLAIMED[p]
        m["checks"].append({"property_id":p,"quick_cmd":"./check %s --tier quick"%p,"thorough_cmd":"./check %s --tier thorough"%p,"evidence_file":"/verif/evidence/%s.json"%p,"replay_cmd_template":"./check %s --replay {path}"%p,"engine":"vcheck","level_claimed":{"category":lvl,"text":text,"design_ref":"DESIGN.md section 3, "+p},"level_note":note,"technique":tech})
    else:
        m["not_applicable"].append({"property_id":p,"reason":REASONS.get(p,"check not built yet in this session (planned, see DESIGN.md section 3); not claimed until it is silent on the unchanged tree")})
json.dump(m,open('/verif/MANIFEST.json','w'),indent=1)
print("claimed",sorted(CLAIMED))
