#!/usr/bin/env python3
"""Regenerates /verif/MANIFEST.json from the table below (kept valid at all times)."""
import json, subprocess
props=[json.loads(l)['id'] for l in open('/verif/properties.jsonl')]
T='property-based testing (proptest generators, shrinking, replay files)'
CLAIMED={
 "C02":("exploration","generated schemas, histories, storage layouts and WHERE/FOR/SINCE queries; every answer is compared with a three-valued reference evaluator in both directions and with the same query on the same data in every other layout","reference evaluator demands only what the documentation forces (EITHER for null cells, string ordering, unknown fields); observations at quiescent states; open known findings are excluded by construction and counted",T+" against a reference model + layout-metamorphic oracle"),
 "C07":("exploration","generated schemas over every field type, edge-heavy values and histories; QUERY / REPLAY / QUERY RETURN[...] are compared cell by cell (by column name) with the stored values at every storage tier, core fields with their first observation","numbers compared numerically, strings byte-identical; response frames decoded by an exactly-rounding JSON reader of the harness; open known findings excluded by construction",T+" with a round-trip oracle across storage tiers"),
}
REASONS={}
hooks_commits=subprocess.run("git -C /repo log --format=%h --grep='^verif:'",shell=True,capture_output=True,text=True).stdout.split()
m={"version":1,
 "setup_cmd":"cd /verif/harness && CARGO_NET_OFFLINE=true cargo build",
 "hooks":{"guard":"--cfg sneldb_verif","enable":"rustflags = [\"--cfg\",\"sneldb_verif\"] in /verif/harness/.cargo/config.toml; the harness depends on snel_db by path (/repo), so every check command rebuilds /repo's working tree with the hooks compiled in","baseline_off_cmd":"/verif/baseline_off.sh","source_commits":hooks_commits,"add_only":True},
 "engines":[{"name":"vcheck","path":"/verif/harness","serves_properties":sorted(CLAIMED),"kind_free_text":"proptest-driven generators + reference model + worker processes hosting the real engine (one process per database lifetime), hooks for crash / pause / clock / compaction"}],
 "checks":[],"notes":"see DESIGN.md; known findings in /verif/known_findings.json","not_applicable":[]}
for p in props:
    if p in CLAIMED:
        lvl,text,note,tech=CLAIMED[p]
        m["checks"].append({"property_id":p,"quick_cmd":"./check %s --tier quick"%p,"thorough_cmd":"./check %s --tier thorough"%p,"evidence_file":"/verif/evidence/%s.json"%p,"replay_cmd_template":"./check %s --replay {path}"%p,"engine":"vcheck","level_claimed":{"category":lvl,"text":text,"design_ref":"DESIGN.md section 3, "+p},"level_note":note,"technique":tech})
    else:
        m["not_applicable"].append({"property_id":p,"reason":REASONS.get(p,"check not built yet in this session (planned, see DESIGN.md section 3); not claimed until it is silent on the unchanged tree")})
json.dump(m,open('/verif/MANIFEST.json','w'),indent=1)
print("claimed",sorted(CLAIMED))
