#!/bin/sh
# usage: try_seeded.sh <patch.diff> <outdir> <tier> <Cxx> [<Cxx> ...]
# applies a seeded change to /repo's working tree, runs the named checks, and ALWAYS reverts the tree.
# Violation replay files produced meanwhile are moved to <outdir>; the evidence directory is restored.
set -u
P=$1; OUT=$2; TIER=$3; shift 3
# one seeded trial at a time: the patch lives in /repo's working tree
exec 9>/tmp/verif-repo-tree.lock; flock 9
mkdir -p "$OUT"
cd /repo || exit 2
if ! git diff --quiet; then echo "repo working tree is dirty"; exit 2; fi
git apply "$P" || { echo "patch does not apply"; exit 2; }
cleanup() {
  git -C /repo checkout -- .
  git -C /verif checkout -- evidence 2>/dev/null
  # rebuild the harness against the reverted tree, so that a later direct use of the binary is not the patched build
  [ -n "${NO_REBUILD:-}" ] || (cd /verif/harness && CARGO_NET_OFFLINE=true cargo build >/dev/null 2>&1)
  echo "[reverted, harness rebuilt]"
}
trap cleanup EXIT INT TERM
cd /verif
for c in "$@"; do
  echo "== $c ($TIER)"
  ./check $c --tier $TIER ${SEED:+--seed $SEED} > "$OUT/run-$c.log" 2>&1
  code=$?
  grep -E "^VIOLATION|signature=|^C[0-9][0-9] tier|^NOTE|BUILD FAILED" "$OUT/run-$c.log" | cut -c1-300
  echo "   exit=$code"
  for f in replays/$c/viol-*.json; do [ -f "$f" ] && mv "$f" "$OUT/caught-by-$c-$(basename $f)"; done
done
