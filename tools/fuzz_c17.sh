#!/bin/sh
# usage: fuzz_c17.sh <runs> <seed>   (coverage-guided part of C17's thorough tier)
# Builds the libFuzzer target against /repo's working tree and runs it from the committed seed corpus.
# exit 0: no crash; exit 1 + VIOLATION line: crash / timeout artifact saved as a replay; exit 2: could not run.
set -u
RUNS=${1:-3000000}; SEED=${2:-1}
ROOT=${VERIF_ROOT:-$(cd "$(dirname "$0")/.." && pwd)}
cd "$ROOT/fuzz" || exit 2
cp /repo/Cargo.lock . 2>/dev/null
mkdir -p target
if ! cargo fuzz build --fuzz-dir . parse > target/fuzz-build.log 2>&1; then
  mkdir -p target; echo "FUZZ BUILD FAILED"; tail -20 target/fuzz-build.log; exit 2
fi
BIN=target/x86_64-unknown-linux-gnu/release/parse
C=target/corpus-run-$$; A=target/artifacts-$$/
rm -rf "$C" "$A"; mkdir -p "$C" "$A"; cp seeds/parse/* "$C"/
JOBS=${VCHECK_LANES:-8}
# -fork runs JOBS processes sharing the corpus; total work is bounded by -runs per process
"$BIN" "$C" -runs=$RUNS -max_len=512 -len_control=0 -timeout=10 -seed=$SEED -artifact_prefix="$A" -print_final_stats=1 > target/fuzz-run-$$.log 2>&1
code=$?
EXEC=$(grep -o "number_of_executed_units: [0-9]*" target/fuzz-run-$$.log | grep -o "[0-9]*$")
NEW=$(grep -o "new_units_added: *[0-9]*" target/fuzz-run-$$.log | grep -o "[0-9]*$")
found=""
for f in "$A"*; do
  [ -f "$f" ] || continue
  mkdir -p "$ROOT/replays/C17"
  dst="$ROOT/replays/C17/fuzz-$(basename "$f")"
  cp "$f" "$dst"; found="$dst"
  echo "VIOLATION property=C17 replay=$dst"
  grep -m3 -E "panicked at|ERROR: libFuzzer|timeout" target/fuzz-run-$$.log | sed 's/^/  /'
done
python3 - "$EXEC" "$NEW" "$SEED" "$found" "$ROOT" <<'PY'
import json,sys
p=sys.argv[5]+'/evidence/C17.json'
try: d=json.load(open(p))
except Exception: sys.exit(0)
d.setdefault('coverage',{}).setdefault('notes',[]).append("libFuzzer target fuzz/fuzz_targets/parse.rs (parse_command on one line: no panic, <10 s, two parses agree): %s executions from the 12-file seed corpus, %s new coverage units, seed %s, crash artifacts: %s"%(sys.argv[1] or '?',sys.argv[2] or '?',sys.argv[3],sys.argv[4] or 'none'))
json.dump(d,open(p,'w'),indent=1)
PY
rm -rf "$C" "$A" target/fuzz-run-$$.log
[ -n "$found" ] && exit 1
[ $code -ne 0 ] && { echo "fuzzer exited with $code without an artifact"; exit 2; }
echo "C17 fuzz: executions=$EXEC new_units=$NEW crashes=0"
exit 0
