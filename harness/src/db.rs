//! Driver-side handle on a worker process (one database lifetime) and response decoding.

use serde::{Deserialize, Serialize};
use serde_json::{Value, json};
use std::io::{BufRead, BufReader, Write};
use std::path::{Path, PathBuf};
use std::process::{Child, ChildStdin, Command, Stdio};
use std::sync::atomic::{AtomicU64, Ordering};
use std::sync::mpsc::{Receiver, RecvTimeoutError, channel};
use std::time::Duration;

#[derive(Debug, Clone, Serialize, Deserialize, PartialEq)]
pub struct DbConfig {
    pub shard_count: usize,
    pub event_per_zone: usize,
    pub fill_factor: usize,
    pub segments_per_merge: usize,
    pub max_inflight_passives: usize,
    pub wal_flush_each_write: bool,
    pub wal_buffered: bool,
    pub conservative_mode: bool,
    pub streaming_batch_size: usize,
    pub timezone: String,
    pub week_start: String,
    pub bypass_auth: bool,
    pub admin_user: Option<String>,
    pub admin_key: Option<String>,
    pub session_expiry: u64,
    pub tcp_port: u16,
}

impl Default for DbConfig {
    fn default() -> Self {
        DbConfig {
            shard_count: 1,
            event_per_zone: 2,
            fill_factor: 2,
            segments_per_merge: 2,
            max_inflight_passives: 8,
            wal_flush_each_write: true,
            wal_buffered: true,
            conservative_mode: false,
            streaming_batch_size: 1000,
            timezone: "UTC".into(),
            week_start: "Mon".into(),
            bypass_auth: true,
            admin_user: None,
            admin_key: None,
            session_expiry: 300,
            tcp_port: 0,
        }
    }
}

impl DbConfig {
    pub fn capacity(&self) -> usize {
        self.event_per_zone * self.fill_factor
    }
    pub fn to_toml(&self, dir: &Path) -> String {
        let d = dir.display();
        let mut auth = format!(
            "[auth]\nbypass_auth = {}\nrate_limit_per_second = 100000\nrate_limit_enabled = false\nsession_token_expiry_seconds = {}\n",
            self.bypass_auth, self.session_expiry
        );
        if let Some(u) = &self.admin_user {
            auth.push_str(&format!("initial_admin_user = \"{}\"\n", u));
        }
        if let Some(k) = &self.admin_key {
            auth.push_str(&format!("initial_admin_key = \"{}\"\n", k));
        }
        format!(
            r#"[wal]
enabled = true
fsync = false
buffered = {buffered}
buffer_size = "64KB"
dir = "{d}/wal/"
flush_each_write = {few}
fsync_every_n = 1024
conservative_mode = {cons}
archive_dir = "{d}/wal/archived/"
compression_level = 3
compression_algorithm = "zstd"

[engine]
fill_factor = {ff}
data_dir = "{d}/cols"
index_dir = "{d}/index/"
shard_count = {shards}
event_per_zone = {epz}
compaction_interval = 100000000
sys_io_threshold = 100
sys_memory_threshold_mb = "1MB"
max_inflight_passives = {mip}
segments_per_merge = {spm}
compaction_max_shard_concurrency = 1

[schema]
def_dir = "{d}/schema/"

[server]
socket_path = "{d}/sneldb.sock"
log_level = "error"
output_format = "json"
tcp_addr = "127.0.0.1:{port}"
http_addr = "127.0.0.1:{hport}"
ws_addr = "127.0.0.1:0"
auth_token = "tok"
backpressure_threshold = 100

[playground]
enabled = false
allow_unauthenticated = false

{auth}
[logging]
log_dir = "{d}/logs"
stdout_level = "error"
file_level = "error"

[query]
zone_index_cache_max_entries = 1024
column_block_cache_max_bytes = "64MB"
zone_surf_cache_max_bytes = "16MB"
streaming_batch_size = {sbs}

[time]
timezone = "{tz}"
week_start = "{ws}"
use_calendar_bucketing = true
"#,
            buffered = self.wal_buffered,
            few = self.wal_flush_each_write,
            cons = self.conservative_mode,
            ff = self.fill_factor,
            shards = self.shard_count,
            epz = self.event_per_zone,
            mip = self.max_inflight_passives,
            spm = self.segments_per_merge,
            port = self.tcp_port,
            hport = if self.tcp_port == 0 { 0 } else { self.tcp_port + 1 },
            auth = auth,
            sbs = self.streaming_batch_size,
            tz = self.timezone,
            ws = self.week_start,
            d = d
        )
    }
}

static CASE_COUNTER: AtomicU64 = AtomicU64::new(0);

pub fn work_root() -> PathBuf {
    let p = std::env::var("VCHECK_WORK").unwrap_or_else(|_| "/verif/harness/target/cases".into());
    PathBuf::from(p)
}

/// A fresh, empty case directory (removed by `CaseDir::drop` unless `keep` is set).
pub struct CaseDir {
    pub path: PathBuf,
    pub keep: bool,
}

impl CaseDir {
    pub fn new(tag: &str) -> CaseDir {
        let n = CASE_COUNTER.fetch_add(1, Ordering::SeqCst);
        let path = work_root().join(format!("{}-{}-{}", tag, std::process::id(), n));
        let _ = std::fs::remove_dir_all(&path);
        std::fs::create_dir_all(&path).expect("create case dir");
        CaseDir { path, keep: false }
    }
}

impl Drop for CaseDir {
    fn drop(&mut self) {
        if !self.keep {
            let _ = std::fs::remove_dir_all(&self.path);
        }
    }
}

#[derive(Debug)]
pub enum DbError {
    /// worker process ended (crash point hit, SIGKILL, abort, stack overflow ...)
    Died(String),
    /// no reply within the watchdog
    Timeout,
    Proto(String),
}

impl std::fmt::Display for DbError {
    fn fmt(&self, f: &mut std::fmt::Formatter<'_>) -> std::fmt::Result {
        write!(f, "{:?}", self)
    }
}

pub struct Db {
    child: Child,
    stdin: Option<ChildStdin>,
    rx: Receiver<String>,
    pub dir: PathBuf,
    pub cfg: DbConfig,
    pub alive: bool,
    pub watchdog: Duration,
    /// panics reported by the worker so far (any thread)
    pub panics: Vec<String>,
    pub log: Vec<String>,
}

#[derive(Debug, Clone, Default)]
pub struct Resp {
    /// status code: of the one-shot response, or 200 for a streamed result
    pub status: u16,
    pub message: String,
    pub parse_error: Option<String>,
    pub parse_panic: bool,
    pub dispatch_panic: bool,
    pub streamed: bool,
    pub columns: Vec<(String, String)>,
    pub rows: Vec<Vec<Value>>,
    pub end_count: Option<u64>,
    /// one-shot results array
    pub results: Vec<Value>,
    pub raw: String,
    pub raw_b64: Option<String>,
    pub panics: Vec<String>,
    pub parse_us: u64,
    pub cmd_debug: String,
    pub empty_output: bool,
}

impl Resp {
    pub fn ok(&self) -> bool {
        self.status == 200 && self.parse_error.is_none()
    }
    pub fn col(&self, name: &str) -> Option<usize> {
        self.columns.iter().position(|(n, _)| n == name)
    }
    pub fn is_error(&self) -> bool {
        self.parse_error.is_some() || self.status >= 400
    }
}

pub fn parse_json_output(raw: &str, r: &mut Resp) {
    // Either a single {"count","status","message","results"} object or NDJSON frames.
    let mut any = false;
    for line in raw.split('\n') {
        let line = line.trim();
        if line.is_empty() {
            continue;
        }
        any = true;
        let v: Value = match crate::jsonx::parse(line) {
            Ok(v) => v,
            Err(_) => {
                r.message = format!("unparseable output line: {}", line);
                r.status = 0;
                continue;
            }
        };
        if let Some(t) = v.get("type").and_then(|t| t.as_str()) {
            match t {
                "schema" => {
                    r.streamed = true;
                    r.status = 200;
                    r.columns = v["columns"]
                        .as_array()
                        .map(|a| {
                            a.iter()
                                .map(|c| {
                                    (
                                        c["name"].as_str().unwrap_or("").to_string(),
                                        c["logical_type"].as_str().unwrap_or("").to_string(),
                                    )
                                })
                                .collect()
                        })
                        .unwrap_or_default();
                }
                "batch" => {
                    if let Some(rows) = v["rows"].as_array() {
                        for row in rows {
                            r.rows.push(row.as_array().cloned().unwrap_or_default());
                        }
                    }
                }
                "row" => {
                    if let Some(obj) = v["values"].as_object() {
                        // keep column order of the schema frame
                        let row: Vec<Value> = r
                            .columns
                            .iter()
                            .map(|(n, _)| obj.get(n).cloned().unwrap_or(Value::Null))
                            .collect();
                        r.rows.push(row);
                    }
                }
                "end" => {
                    r.end_count = v["row_count"].as_u64();
                }
                _ => {}
            }
        } else if v.get("status").is_some() {
            r.status = v["status"].as_u64().unwrap_or(0) as u16;
            r.message = v["message"].as_str().unwrap_or("").to_string();
            r.results = v["results"].as_array().cloned().unwrap_or_default();
            // table body
            if let Some(first) = r.results.first() {
                if first.get("columns").is_some() && first.get("rows").is_some() {
                    r.columns = first["columns"]
                        .as_array()
                        .map(|a| {
                            a.iter()
                                .map(|c| {
                                    (
                                        c["name"].as_str().unwrap_or("").to_string(),
                                        c["type"].as_str().unwrap_or("").to_string(),
                                    )
                                })
                                .collect()
                        })
                        .unwrap_or_default();
                    if let Some(rows) = first["rows"].as_array() {
                        for row in rows {
                            r.rows.push(row.as_array().cloned().unwrap_or_default());
                        }
                    }
                }
            }
        }
    }
    r.empty_output = !any;
}

impl Db {
    /// Start a worker on `dir` (writes config.toml when absent).
    pub fn open(dir: &Path, cfg: &DbConfig) -> Result<Db, DbError> {
        Self::open_env(dir, cfg, &[])
    }

    pub fn open_env(dir: &Path, cfg: &DbConfig, env: &[(&str, String)]) -> Result<Db, DbError> {
        std::fs::create_dir_all(dir).map_err(|e| DbError::Proto(e.to_string()))?;
        let cfg_path = dir.join("config.toml");
        std::fs::write(&cfg_path, cfg.to_toml(dir)).map_err(|e| DbError::Proto(e.to_string()))?;
        let exe = std::env::current_exe().map_err(|e| DbError::Proto(e.to_string()))?;
        let n = std::fs::read_dir(dir)
            .map(|d| {
                d.flatten()
                    .filter(|e| e.file_name().to_string_lossy().starts_with("stderr"))
                    .count()
            })
            .unwrap_or(0);
        let stderr_file = std::fs::File::create(dir.join(format!("stderr-{}.log", n)))
            .map_err(|e| DbError::Proto(e.to_string()))?;
        let mut c = Command::new(exe);
        c.arg("worker")
            .env("SNELDB_CONFIG", cfg_path.to_string_lossy().to_string())
            .env("RUST_BACKTRACE", "0")
            .current_dir(dir)
            .stdin(Stdio::piped())
            .stdout(Stdio::piped())
            .stderr(Stdio::from(stderr_file));
        for (k, v) in env {
            c.env(k, v);
        }
        let mut child = c.spawn().map_err(|e| DbError::Proto(e.to_string()))?;
        let stdin = child.stdin.take();
        let stdout = child.stdout.take().unwrap();
        let (tx, rx) = channel::<String>();
        std::thread::spawn(move || {
            let rd = BufReader::new(stdout);
            for line in rd.lines() {
                match line {
                    Ok(l) => {
                        if tx.send(l).is_err() {
                            break;
                        }
                    }
                    Err(_) => break,
                }
            }
        });
        let mut db = Db {
            child,
            stdin,
            rx,
            dir: dir.to_path_buf(),
            cfg: cfg.clone(),
            alive: true,
            watchdog: Duration::from_secs(40),
            panics: vec![],
            log: vec![],
        };
        // wait for ready
        let v = db.read_reply()?;
        if v["ready"].as_bool() != Some(true) {
            return Err(DbError::Proto(format!("unexpected first reply {}", v)));
        }
        db.absorb_panics(&v);
        Ok(db)
    }

    fn absorb_panics(&mut self, v: &Value) {
        if let Some(a) = v["panics"].as_array() {
            for p in a {
                if let Some(s) = p.as_str() {
                    self.panics.push(s.to_string());
                }
            }
        }
    }

    fn read_reply(&mut self) -> Result<Value, DbError> {
        match self.rx.recv_timeout(self.watchdog) {
            Ok(l) => serde_json::from_str(&l).map_err(|e| DbError::Proto(format!("{}: {}", e, l))),
            Err(RecvTimeoutError::Timeout) => Err(DbError::Timeout),
            Err(RecvTimeoutError::Disconnected) => {
                self.alive = false;
                let st = self.child.wait().map(|s| format!("{:?}", s)).unwrap_or_default();
                Err(DbError::Died(st))
            }
        }
    }

    pub fn req(&mut self, v: Value) -> Result<Value, DbError> {
        if !self.alive {
            return Err(DbError::Died("not alive".into()));
        }
        let line = format!("{}\n", v);
        let w = self.stdin.as_mut().ok_or_else(|| DbError::Died("stdin closed".into()))?;
        if w.write_all(line.as_bytes()).is_err() || w.flush().is_err() {
            self.alive = false;
            let st = self.child.wait().map(|s| format!("{:?}", s)).unwrap_or_default();
            return Err(DbError::Died(st));
        }
        let r = self.read_reply()?;
        self.absorb_panics(&r);
        Ok(r)
    }

    pub fn cmd_with(&mut self, line: &str, renderer: &str, user: Option<&str>, no_user: bool) -> Result<Resp, DbError> {
        self.log.push(line.to_string());
        let mut q = json!({"op":"cmd","line":line,"renderer":renderer});
        if let Some(u) = user {
            q["user"] = json!(u);
        }
        if no_user {
            q["no_user"] = json!(true);
        }
        let v = self.req(q)?;
        let mut r = Resp::default();
        r.panics = v["panics"]
            .as_array()
            .map(|a| a.iter().filter_map(|x| x.as_str().map(|s| s.to_string())).collect())
            .unwrap_or_default();
        r.parse_us = v["parse_us"].as_u64().unwrap_or(0);
        r.cmd_debug = v["cmd_debug"].as_str().unwrap_or("").to_string();
        if v["parse_panic"].as_bool() == Some(true) {
            r.parse_panic = true;
            return Ok(r);
        }
        if v["dispatch_panic"].as_bool() == Some(true) {
            r.dispatch_panic = true;
            return Ok(r);
        }
        if let Some(e) = v["parse_error"].as_str() {
            r.parse_error = Some(e.to_string());
            r.status = 400;
            return Ok(r);
        }
        if let Some(s) = v["out"].as_str() {
            r.raw = s.to_string();
            if renderer == "json" {
                parse_json_output(s, &mut r);
            }
        } else if let Some(b) = v["out_b64"].as_str() {
            r.raw_b64 = Some(b.to_string());
        }
        Ok(r)
    }

    pub fn cmd(&mut self, line: &str) -> Result<Resp, DbError> {
        self.cmd_with(line, "json", None, false)
    }

    /// mailbox FIFO barrier + queued flushes completed + WAL drained
    pub fn barrier(&mut self) -> Result<(), DbError> {
        self.log.push("!barrier".into());
        let v = self.req(json!({"op":"barrier"}))?;
        if v["ok"].as_bool() != Some(true) {
            return Err(DbError::Proto(format!("barrier: {}", v)));
        }
        Ok(())
    }

    pub fn compact(&mut self, shard: usize) -> Result<Value, DbError> {
        self.log.push(format!("!compact {}", shard));
        self.req(json!({"op":"compact","shard":shard}))
    }

    pub fn live(&mut self, shard: usize) -> Result<Vec<String>, DbError> {
        let v = self.req(json!({"op":"live","shard":shard}))?;
        Ok(v["live"]
            .as_array()
            .map(|a| a.iter().filter_map(|x| x.as_str().map(|s| s.to_string())).collect())
            .unwrap_or_default())
    }

    pub fn set_clock_secs(&mut self, v: u64) -> Result<(), DbError> {
        self.log.push(format!("!clock {}", v));
        self.req(json!({"op":"clock_secs","v":v})).map(|_| ())
    }

    /// graceful shutdown (flush_all + shutdown_all, then normal process end)
    pub fn shutdown(&mut self) -> Result<Value, DbError> {
        self.log.push("!shutdown".into());
        let v = self.req(json!({"op":"shutdown"}))?;
        self.stdin.take();
        let _ = self.child.wait();
        self.alive = false;
        Ok(v)
    }

    /// SIGKILL now.
    pub fn kill(&mut self) {
        self.log.push("!kill".into());
        let _ = self.child.kill();
        let _ = self.child.wait();
        self.alive = false;
    }

    /// Wait for the worker to die by itself (armed crash point), up to the timeout.
    pub fn wait_dead(&mut self, timeout: Duration) -> bool {
        let t0 = std::time::Instant::now();
        loop {
            match self.child.try_wait() {
                Ok(Some(_)) => {
                    self.alive = false;
                    return true;
                }
                _ => {}
            }
            if t0.elapsed() > timeout {
                return false;
            }
            std::thread::sleep(Duration::from_millis(2));
        }
    }
}

impl Drop for Db {
    fn drop(&mut self) {
        if self.alive {
            let _ = self.child.kill();
            let _ = self.child.wait();
        } else {
            let _ = self.child.try_wait();
        }
    }
}
