//! WHERE grammar: generator, printer and three-valued reference evaluator (DESIGN 2.4).

use crate::hist::{FT, FieldDef, TypeDef};
use proptest::prelude::*;
use serde::{Deserialize, Serialize};
use serde_json::{Value, json};
use std::cmp::Ordering;

#[derive(Clone, Debug, Serialize, Deserialize, PartialEq)]
pub enum Lit {
    Int(i64),
    Float(f64),
    Str(String),
    /// unquoted word (true / false / identifier-looking string)
    Word(String),
}

impl Lit {
    pub fn print(&self) -> String {
        match self {
            Lit::Int(i) => i.to_string(),
            Lit::Float(f) => {
                // the grammar accepts -?digits(.digits)?
                let s = format!("{:?}", f);
                if s.contains('e') || s.contains("inf") || s.contains("NaN") {
                    format!("{:.1}", f)
                } else {
                    s
                }
            }
            Lit::Str(s) => format!("\"{}\"", s),
            Lit::Word(w) => w.clone(),
        }
    }
}

#[derive(Clone, Copy, Debug, Serialize, Deserialize, PartialEq)]
pub enum Cmp {
    Eq,
    Neq,
    Lt,
    Lte,
    Gt,
    Gte,
}

impl Cmp {
    pub fn sym(&self) -> &'static str {
        match self {
            Cmp::Eq => "=",
            Cmp::Neq => "!=",
            Cmp::Lt => "<",
            Cmp::Lte => "<=",
            Cmp::Gt => ">",
            Cmp::Gte => ">=",
        }
    }
    pub fn holds(&self, o: Ordering) -> bool {
        match self {
            Cmp::Eq => o == Ordering::Equal,
            Cmp::Neq => o != Ordering::Equal,
            Cmp::Lt => o == Ordering::Less,
            Cmp::Lte => o != Ordering::Greater,
            Cmp::Gt => o == Ordering::Greater,
            Cmp::Gte => o != Ordering::Less,
        }
    }
}

#[derive(Clone, Debug, Serialize, Deserialize, PartialEq)]
pub enum WExpr {
    Cmp { field: String, op: Cmp, lit: Lit },
    In { field: String, lits: Vec<Lit> },
    And(Box<WExpr>, Box<WExpr>),
    Or(Box<WExpr>, Box<WExpr>),
    Not(Box<WExpr>),
}

#[derive(Clone, Copy, Debug, PartialEq)]
pub enum Tri {
    True,
    False,
    Either,
}

impl Tri {
    pub fn not(self) -> Tri {
        match self {
            Tri::True => Tri::False,
            Tri::False => Tri::True,
            Tri::Either => Tri::Either,
        }
    }
    pub fn and(self, o: Tri) -> Tri {
        if self == Tri::False || o == Tri::False {
            Tri::False
        } else if self == Tri::True && o == Tri::True {
            Tri::True
        } else {
            Tri::Either
        }
    }
    pub fn or(self, o: Tri) -> Tri {
        if self == Tri::True || o == Tri::True {
            Tri::True
        } else if self == Tri::False && o == Tri::False {
            Tri::False
        } else {
            Tri::Either
        }
    }
    pub fn from_bool(b: bool) -> Tri {
        if b { Tri::True } else { Tri::False }
    }
}

impl WExpr {
    pub fn print(&self) -> String {
        match self {
            WExpr::Cmp { field, op, lit } => format!("{} {} {}", field, op.sym(), lit.print()),
            WExpr::In { field, lits } => {
                format!("{} IN ({})", field, lits.iter().map(|l| l.print()).collect::<Vec<_>>().join(", "))
            }
            WExpr::And(a, b) => format!("({} AND {})", a.print(), b.print()),
            WExpr::Or(a, b) => format!("({} OR {})", a.print(), b.print()),
            WExpr::Not(a) => format!("NOT ({})", a.print()),
        }
    }

    /// print relying on precedence only (no redundant parentheses) - used by C17
    pub fn labels(&self, td: &TypeDef, out: &mut Vec<String>) {
        match self {
            WExpr::Cmp { field, op, lit } => {
                out.push(format!("where:op:{}", op.sym()));
                lit_labels(td, field, lit, out);
            }
            WExpr::In { field, lits } => {
                out.push("where:in".into());
                for l in lits {
                    lit_labels(td, field, l, out);
                }
            }
            WExpr::And(a, b) => {
                out.push("where:and".into());
                a.labels(td, out);
                b.labels(td, out);
            }
            WExpr::Or(a, b) => {
                out.push("where:or".into());
                a.labels(td, out);
                b.labels(td, out);
            }
            WExpr::Not(a) => {
                out.push("where:not".into());
                a.labels(td, out);
            }
        }
    }

    pub fn any_lit(&self, p: &dyn Fn(&str, &Lit) -> bool) -> bool {
        match self {
            WExpr::Cmp { field, lit, .. } => p(field, lit),
            WExpr::In { field, lits } => lits.iter().any(|l| p(field, l)),
            WExpr::And(a, b) | WExpr::Or(a, b) => a.any_lit(p) || b.any_lit(p),
            WExpr::Not(a) => a.any_lit(p),
        }
    }

    pub fn any_node(&self, p: &dyn Fn(&WExpr) -> bool) -> bool {
        if p(self) {
            return true;
        }
        match self {
            WExpr::And(a, b) | WExpr::Or(a, b) => a.any_node(p) || b.any_node(p),
            WExpr::Not(a) => a.any_node(p),
            _ => false,
        }
    }

    /// vals aligned with td.fields; `k` is the tag field
    pub fn eval(&self, td: &TypeDef, vals: &[Value], k: i64) -> Tri {
        match self {
            WExpr::Cmp { field, op, lit } => eval_cmp(td, vals, k, field, *op, lit),
            WExpr::In { field, lits } => {
                let mut r = Tri::False;
                for l in lits {
                    r = r.or(eval_cmp(td, vals, k, field, Cmp::Eq, l));
                }
                r
            }
            WExpr::And(a, b) => a.eval(td, vals, k).and(b.eval(td, vals, k)),
            WExpr::Or(a, b) => a.eval(td, vals, k).or(b.eval(td, vals, k)),
            WExpr::Not(a) => a.eval(td, vals, k).not(),
        }
    }
}

fn lit_labels(td: &TypeDef, field: &str, lit: &Lit, out: &mut Vec<String>) {
    let fty = if field == "k" { Some(FT::Int) } else { td.field(field).map(|f| f.ty.clone()) };
    match lit {
        Lit::Float(f) if f.fract() != 0.0 => out.push("where:float_lit_fractional".into()),
        Lit::Float(_) => out.push("where:float_lit_integral".into()),
        Lit::Int(i) if *i < 0 => out.push("where:neg_lit".into()),
        _ => {}
    }
    if let Some(t) = fty {
        out.push(format!(
            "where:col:{}",
            match t {
                FT::Int => "int",
                FT::U64 => "u64",
                FT::Float => "float",
                FT::Str => "str",
                FT::Bool => "bool",
                FT::Enum(_) => "enum",
                FT::Datetime | FT::Date => "time",
            }
        ));
    } else {
        out.push("where:unknown_field".into());
    }
}

/// exact comparison of a JSON number with a numeric literal
fn cmp_num(v: &Value, lit: &Lit) -> Option<Ordering> {
    let n = v.as_number()?;
    match lit {
        Lit::Int(l) => {
            if let Some(i) = n.as_i64() {
                Some((i as i128).cmp(&(*l as i128)))
            } else if let Some(u) = n.as_u64() {
                Some((u as i128).cmp(&(*l as i128)))
            } else {
                let f = n.as_f64()?;
                cmp_f_i(f, *l as i128)
            }
        }
        Lit::Float(l) => {
            if let Some(i) = n.as_i64() {
                cmp_f_i(*l, i as i128).map(|o| o.reverse())
            } else if let Some(u) = n.as_u64() {
                cmp_f_i(*l, u as i128).map(|o| o.reverse())
            } else {
                n.as_f64()?.partial_cmp(l)
            }
        }
        _ => None,
    }
}

/// compare float f with integer i exactly
fn cmp_f_i(f: f64, i: i128) -> Option<Ordering> {
    if f.is_nan() {
        return None;
    }
    if f >= 1.8e19 {
        return Some(Ordering::Greater);
    }
    if f <= -1.8e19 {
        return Some(Ordering::Less);
    }
    let fl = f.floor();
    let fi = fl as i128;
    match fi.cmp(&i) {
        Ordering::Equal => {
            if f > fl { Some(Ordering::Greater) } else { Some(Ordering::Equal) }
        }
        o => Some(o),
    }
}

fn eval_cmp(td: &TypeDef, vals: &[Value], k: i64, field: &str, op: Cmp, lit: &Lit) -> Tri {
    let (ty, v): (FT, Value) = if field == "k" {
        (FT::Int, json!(k))
    } else {
        match td.fields.iter().position(|f| f.name == field) {
            Some(i) => (td.fields[i].ty.clone(), vals[i].clone()),
            None => return Tri::Either, // unknown field: error or empty both accepted
        }
    };
    if v.is_null() {
        return Tri::Either;
    }
    match ty {
        FT::Int | FT::U64 | FT::Float => match lit {
            Lit::Int(_) | Lit::Float(_) => match cmp_num(&v, lit) {
                Some(o) => Tri::from_bool(op.holds(o)),
                None => Tri::Either,
            },
            _ => Tri::Either,
        },
        FT::Datetime | FT::Date => match lit {
            Lit::Int(_) => match cmp_num(&v, lit) {
                Some(o) => Tri::from_bool(op.holds(o)),
                None => Tri::Either,
            },
            Lit::Str(s) => match crate::hist::norm_time(&json!(s)) {
                Some(secs) => match cmp_num(&v, &Lit::Int(secs)) {
                    Some(o) => Tri::from_bool(op.holds(o)),
                    None => Tri::Either,
                },
                None => Tri::Either,
            },
            _ => Tri::Either,
        },
        FT::Str | FT::Enum(_) => {
            let s = v.as_str().unwrap_or("");
            match (op, lit) {
                (Cmp::Eq, Lit::Str(l)) | (Cmp::Eq, Lit::Word(l)) => Tri::from_bool(s == l),
                (Cmp::Neq, Lit::Str(l)) | (Cmp::Neq, Lit::Word(l)) => Tri::from_bool(s != l),
                _ => Tri::Either,
            }
        }
        FT::Bool => {
            let b = v.as_bool().unwrap_or(false);
            match (op, lit) {
                (Cmp::Eq, Lit::Word(w)) if w == "true" || w == "false" => Tri::from_bool(b == (w == "true")),
                (Cmp::Neq, Lit::Word(w)) if w == "true" || w == "false" => Tri::from_bool(b != (w == "true")),
                _ => Tri::Either,
            }
        }
    }
}

// ------------------------------------------------------------------ generation

fn lit_for_field(f: &FieldDef) -> BoxedStrategy<Lit> {
    match &f.ty {
        FT::Int => prop_oneof![
            8 => (-4i64..=7).prop_map(Lit::Int),
            1 => prop::sample::select(vec![i64::MIN + 1, i64::MAX, -1_000_000_007, 4_000_000_000, 3_999_999_999]).prop_map(Lit::Int),
            2 => prop::sample::select(vec![-0.5f64, 0.5, 1.5, 2.0, 3.0, 5.5]).prop_map(Lit::Float),
        ]
        .boxed(),
        FT::U64 => prop_oneof![
            8 => (-1i64..=7).prop_map(Lit::Int),
            1 => prop::sample::select(vec![i64::MAX, 4_000_000_000, -5]).prop_map(Lit::Int),
            1 => prop::sample::select(vec![0.5f64, 2.0, 5.5]).prop_map(Lit::Float),
        ]
        .boxed(),
        FT::Float => prop_oneof![
            5 => prop::sample::select(vec![-2.5f64, -0.5, 0.0, 0.5, 1.0, 1.5, 1.7, 2.0, 2.5, 3.0, 0.25, -0.001]).prop_map(Lit::Float),
            4 => (-3i64..=4).prop_map(Lit::Int),
        ]
        .boxed(),
        FT::Str => prop_oneof![
            6 => prop::sample::select(vec!["", "a", "aa", "ab", "b", "B", "10", "9", "true", "null", "é", "a b", "zz"]).prop_map(|s| Lit::Str(s.to_string())),
            1 => prop::sample::select(vec!["a", "aa", "b", "zz"]).prop_map(|s| Lit::Word(s.to_string())),
        ]
        .boxed(),
        FT::Bool => prop::sample::select(vec!["true", "false"]).prop_map(|s| Lit::Word(s.to_string())).boxed(),
        FT::Enum(vs) => {
            let mut all: Vec<String> = vs.clone();
            all.push("v9".into()); // unknown variant
            all.push("V0".into()); // wrong case
            prop_oneof![
                3 => prop::sample::select(all.clone()).prop_map(Lit::Str),
                1 => prop::sample::select(all).prop_map(Lit::Word),
            ]
            .boxed()
        }
        FT::Datetime | FT::Date => prop_oneof![
            4 => (-1i64..7).prop_map(|d| Lit::Int(1_700_000_000 + d * 1800)),
            1 => (0i64..6).prop_map(|d| Lit::Int(1_700_000_000 + d * 1800 + 1)),
            2 => (0i64..6).prop_map(|d| {
                let t = chrono::DateTime::from_timestamp(1_700_000_000 + d * 1800, 0).unwrap();
                Lit::Str(t.to_rfc3339_opts(chrono::SecondsFormat::Secs, true))
            }),
        ]
        .boxed(),
    }
}

fn op_for_field(f: &FieldDef) -> BoxedStrategy<Cmp> {
    match f.ty {
        FT::Str | FT::Enum(_) | FT::Bool => prop_oneof![4 => Just(Cmp::Eq), 3 => Just(Cmp::Neq), 1 => prop::sample::select(vec![Cmp::Lt, Cmp::Gte])].boxed(),
        _ => prop::sample::select(vec![Cmp::Eq, Cmp::Neq, Cmp::Lt, Cmp::Lte, Cmp::Gt, Cmp::Gte]).boxed(),
    }
}

pub fn leaf_strategy(td: &TypeDef) -> BoxedStrategy<WExpr> {
    let mut fields: Vec<FieldDef> = td.fields.clone();
    fields.push(FieldDef { name: "k".into(), ty: FT::Int, opt: false, alias: "int".into() });
    let n = fields.len();
    (0..n)
        .prop_flat_map(move |i| {
            let f = fields[i].clone();
            let name = f.name.clone();
            let name2 = f.name.clone();
            if name == "k" {
                // tag field: literals near the tag range
                return (prop::sample::select(vec![Cmp::Eq, Cmp::Neq, Cmp::Lt, Cmp::Gte]), (0i64..40))
                    .prop_map(move |(op, d)| WExpr::Cmp { field: "k".into(), op, lit: Lit::Int(crate::hist::K_BASE + d) })
                    .boxed();
            }
            prop_oneof![
                5 => (op_for_field(&f), lit_for_field(&f)).prop_map(move |(op, lit)| WExpr::Cmp { field: name.clone(), op, lit }),
                1 => prop::collection::vec(lit_for_field(&f), 1..=3).prop_map(move |lits| WExpr::In { field: name2.clone(), lits }),
            ]
            .boxed()
        })
        .boxed()
}

fn eq_leaf(f: &FieldDef) -> BoxedStrategy<WExpr> {
    let name = f.name.clone();
    if name == "k" {
        return (0i64..40).prop_map(|d| WExpr::Cmp { field: "k".into(), op: Cmp::Eq, lit: Lit::Int(crate::hist::K_BASE + d) }).boxed();
    }
    (prop_oneof![5 => Just(Cmp::Eq), 1 => op_for_field(f)], lit_for_field(f)).prop_map(move |(op, lit)| WExpr::Cmp { field: name.clone(), op, lit }).boxed()
}

/// chains of three or four (mostly equality) leaves over one or two fields under ONE connective, nested to the left, to the
/// right or balanced: the shapes a planner rewrites (an OR of equalities on one field into a membership probe, an AND of
/// comparisons into a range), including the mixed case where one leaf of the chain is on another field
pub fn chain_strategy(td: &TypeDef) -> BoxedStrategy<WExpr> {
    let mut fields: Vec<FieldDef> = td.fields.clone();
    fields.push(FieldDef { name: "k".into(), ty: FT::Int, opt: false, alias: "int".into() });
    let n = fields.len();
    (0..n, 0..n)
        .prop_flat_map(move |(i, j)| {
            let a = eq_leaf(&fields[i]);
            let b = eq_leaf(&fields[j]);
            (prop::collection::vec(prop_oneof![2 => a, 1 => b], 3..=4), 0u8..3, prop::bool::weighted(0.75))
        })
        .prop_map(|(leaves, shape, is_or)| {
            let join = |x: WExpr, y: WExpr| if is_or { WExpr::Or(Box::new(x), Box::new(y)) } else { WExpr::And(Box::new(x), Box::new(y)) };
            let mut it = leaves.into_iter();
            match shape {
                0 => {
                    // ((l1 . l2) . l3) . l4
                    let first = it.next().unwrap();
                    it.fold(first, |acc, l| join(acc, l))
                }
                1 => {
                    // l1 . (l2 . (l3 . l4))
                    let mut v: Vec<WExpr> = it.collect();
                    let last = v.pop().unwrap();
                    v.into_iter().rev().fold(last, |acc, l| join(l, acc))
                }
                _ => {
                    // (l1 . l2) . (l3 [. l4])
                    let v: Vec<WExpr> = it.collect();
                    let left = join(v[0].clone(), v[1].clone());
                    let right = if v.len() > 3 { join(v[2].clone(), v[3].clone()) } else { v[2].clone() };
                    join(left, right)
                }
            }
        })
        .boxed()
}

pub fn where_strategy(td: &TypeDef, depth: u32) -> BoxedStrategy<WExpr> {
    let leaf = leaf_strategy(td);
    let tree = leaf
        .prop_recursive(depth, 12, 2, |inner| {
            prop_oneof![
                3 => (inner.clone(), inner.clone()).prop_map(|(a, b)| WExpr::And(Box::new(a), Box::new(b))),
                3 => (inner.clone(), inner.clone()).prop_map(|(a, b)| WExpr::Or(Box::new(a), Box::new(b))),
                2 => inner.prop_map(|a| WExpr::Not(Box::new(a))),
            ]
        })
        .boxed();
    if depth < 2 {
        return tree;
    }
    prop_oneof![6 => tree, 2 => chain_strategy(td)].boxed()
}
