//! Engine host: one process = one lifetime of the database.
//! Protocol: newline-delimited JSON requests on stdin, one JSON reply per request on stdout.

use base64::Engine as _;
use serde_json::{Value, json};
use snel_db::command::dispatcher::dispatch_command;
use snel_db::command::parser::parse_command;
use snel_db::frontend::context::FrontendContext;
use snel_db::shared::response::arrow::ArrowRenderer;
use snel_db::shared::response::json::JsonRenderer;
use snel_db::shared::response::unix::UnixRenderer;
use snel_db::verif_hooks as hooks;
use std::io::{BufRead, Write};
use std::sync::{Arc, Mutex};

static PANICS: Mutex<Vec<String>> = Mutex::new(Vec::new());

fn reply(v: Value) {
    let mut out = std::io::stdout().lock();
    let _ = writeln!(out, "{}", v);
    let _ = out.flush();
}

fn take_panics() -> Vec<String> {
    std::mem::take(&mut *PANICS.lock().unwrap())
}

pub fn worker_main() {
    std::panic::set_hook(Box::new(|info| {
        let loc = info
            .location()
            .map(|l| format!("{}:{}", l.file(), l.line()))
            .unwrap_or_default();
        let msg = if let Some(s) = info.payload().downcast_ref::<&str>() {
            s.to_string()
        } else if let Some(s) = info.payload().downcast_ref::<String>() {
            s.clone()
        } else {
            "<non-string panic>".to_string()
        };
        PANICS.lock().unwrap().push(format!("{} @ {}", msg, loc));
    }));

    if let Ok(f) = std::env::var("VCHECK_TRACE") {
        let _ = tracing_subscriber::fmt()
            .with_env_filter(tracing_subscriber::EnvFilter::new(f))
            .with_writer(std::io::stderr)
            .with_ansi(false)
            .try_init();
    }
    let threads: usize = std::env::var("VCHECK_WORKER_THREADS")
        .ok()
        .and_then(|s| s.parse().ok())
        .unwrap_or(4);
    let rt = tokio::runtime::Builder::new_multi_thread()
        .worker_threads(threads)
        .enable_all()
        .build()
        .expect("runtime");

    rt.block_on(async {
        // Clock may have to be set before recovery / first store: allow env preset.
        if let Ok(v) = std::env::var("VCHECK_CLOCK_SECS") {
            if let Ok(s) = v.parse::<u64>() {
                hooks::set_clock_secs(Some(s));
            }
        }
        if let Ok(v) = std::env::var("VCHECK_CLOCK_MS") {
            if let Ok(s) = v.parse::<u64>() {
                hooks::set_clock_millis(Some(s));
            }
        }
        if let Ok(v) = std::env::var("VCHECK_ARM_CRASH") {
            // step:nth  (armed before start-up so recovery-time steps can be hit)
            if let Some((s, n)) = v.rsplit_once(':') {
                hooks::arm_crash(s, n.parse().unwrap_or(1));
            }
        }
        let ctx = FrontendContext::from_config().await;
        reply(json!({"ready": true, "panics": take_panics()}));

        let (tx, mut rx) = tokio::sync::mpsc::channel::<String>(64);
        std::thread::spawn(move || {
            let stdin = std::io::stdin();
            for line in stdin.lock().lines() {
                match line {
                    Ok(l) => {
                        if tx.blocking_send(l).is_err() {
                            break;
                        }
                    }
                    Err(_) => break,
                }
            }
        });

        while let Some(line) = rx.recv().await {
            let req: Value = match serde_json::from_str(&line) {
                Ok(v) => v,
                Err(e) => {
                    reply(json!({"error": format!("bad request: {}", e)}));
                    continue;
                }
            };
            let op = req["op"].as_str().unwrap_or("");
            match op {
                "cmd" => {
                    let line = req["line"].as_str().unwrap_or("").to_string();
                    let renderer = req["renderer"].as_str().unwrap_or("json").to_string();
                    let user = req["user"].as_str().map(|s| s.to_string());
                    let no_user = req["no_user"].as_bool().unwrap_or(false);
                    let ctx2 = Arc::clone(&ctx);
                    let h = tokio::spawn(async move {
                        let t0 = std::time::Instant::now();
                        let parsed = std::panic::catch_unwind(|| parse_command(&line));
                        let cmd = match parsed {
                            Err(_) => return json!({"parse_panic": true}),
                            Ok(Err(e)) => {
                                return json!({"parse_error": format!("{:?}", e)});
                            }
                            Ok(Ok(c)) => c,
                        };
                        let parse_us = t0.elapsed().as_micros() as u64;
                        let mut out: Vec<u8> = Vec::new();
                        let uid: Option<&str> = if no_user {
                            None
                        } else {
                            Some(user.as_deref().unwrap_or("bypass"))
                        };
                        let res = match renderer.as_str() {
                            "unix" => {
                                dispatch_command(
                                    &cmd,
                                    &mut out,
                                    &ctx2.shard_manager,
                                    &ctx2.registry,
                                    ctx2.auth_manager.as_ref(),
                                    uid,
                                    &UnixRenderer,
                                )
                                .await
                            }
                            "arrow" => {
                                dispatch_command(
                                    &cmd,
                                    &mut out,
                                    &ctx2.shard_manager,
                                    &ctx2.registry,
                                    ctx2.auth_manager.as_ref(),
                                    uid,
                                    &ArrowRenderer,
                                )
                                .await
                            }
                            _ => {
                                dispatch_command(
                                    &cmd,
                                    &mut out,
                                    &ctx2.shard_manager,
                                    &ctx2.registry,
                                    ctx2.auth_manager.as_ref(),
                                    uid,
                                    &JsonRenderer,
                                )
                                .await
                            }
                        };
                        let mut v = json!({"parse_us": parse_us, "cmd_debug": format!("{:?}", cmd).chars().take(400).collect::<String>()});
                        if let Err(e) = res {
                            v["io_error"] = json!(e.to_string());
                        }
                        match String::from_utf8(out) {
                            Ok(s) => v["out"] = json!(s),
                            Err(e) => {
                                v["out_b64"] = json!(
                                    base64::engine::general_purpose::STANDARD
                                        .encode(e.into_bytes())
                                )
                            }
                        }
                        v
                    });
                    let mut v = match h.await {
                        Ok(v) => v,
                        Err(e) => json!({"dispatch_panic": true, "join_error": e.to_string()}),
                    };
                    v["panics"] = json!(take_panics());
                    reply(v);
                }
                "parse" => {
                    // parse only; returns debug form of the command
                    let line = req["line"].as_str().unwrap_or("").to_string();
                    let t0 = std::time::Instant::now();
                    let parsed = std::panic::catch_unwind(|| parse_command(&line));
                    let us = t0.elapsed().as_micros() as u64;
                    let v = match parsed {
                        Err(_) => json!({"parse_panic": true, "us": us, "panics": take_panics()}),
                        Ok(Err(e)) => json!({"parse_error": format!("{:?}", e), "us": us}),
                        Ok(Ok(c)) => json!({"cmd_debug": format!("{:?}", c), "us": us}),
                    };
                    reply(v);
                }
                "barrier" => {
                    // mailbox barrier + all queued flushes complete + WAL queue drained
                    let errs = ctx.shard_manager.wait_for_flush_completion().await;
                    let t0 = std::time::Instant::now();
                    while !hooks::wal_drained() && t0.elapsed().as_secs() < 30 {
                        tokio::time::sleep(std::time::Duration::from_millis(1)).await;
                    }
                    reply(json!({"ok": errs.is_empty(), "errors": errs.iter().map(|(i,e)| format!("{}:{}", i, e)).collect::<Vec<_>>(), "wal_drained": hooks::wal_drained(), "panics": take_panics()}));
                }
                "flush_barrier" => {
                    // mailbox FIFO + all queued flushes complete; does not wait for the WAL task
                    let errs = ctx.shard_manager.wait_for_flush_completion().await;
                    reply(json!({"ok": errs.is_empty()}));
                }
                "wal_barrier" => {
                    // only mailbox FIFO + WAL drained; does not wait for flushes
                    // a QueryStream-free mailbox barrier: AwaitFlush waits for flushes, so
                    // instead poll the WAL counters after a short yield.
                    let t0 = std::time::Instant::now();
                    while !hooks::wal_drained() && t0.elapsed().as_secs() < 30 {
                        tokio::time::sleep(std::time::Duration::from_millis(1)).await;
                    }
                    reply(json!({"ok": true, "wal_drained": hooks::wal_drained()}));
                }
                "compact" => {
                    let shard = req["shard"].as_u64().unwrap_or(0) as u32;
                    let h = tokio::spawn(async move { hooks::compact_shard(shard).await });
                    let v = match h.await {
                        Ok(Ok(p)) => json!({"planned": p}),
                        Ok(Err(e)) => json!({"planned": false, "error": e}),
                        Err(e) => json!({"planned": false, "panic": e.to_string()}),
                    };
                    let mut v = v;
                    v["panics"] = json!(take_panics());
                    reply(v);
                }
                "arm_crash" => {
                    hooks::arm_crash(
                        req["step"].as_str().unwrap_or(""),
                        req["nth"].as_u64().unwrap_or(1),
                    );
                    reply(json!({"ok": true}));
                }
                "arm_pause" => {
                    hooks::arm_pause(
                        req["step"].as_str().unwrap_or(""),
                        req["nth"].as_u64().unwrap_or(1),
                    );
                    reply(json!({"ok": true}));
                }
                "disarm" => {
                    hooks::disarm();
                    reply(json!({"ok": true}));
                }
                "parked" => {
                    // wait up to wait_ms for a parked step
                    let wait_ms = req["wait_ms"].as_u64().unwrap_or(0);
                    let t0 = std::time::Instant::now();
                    loop {
                        if let Some(p) = hooks::parked() {
                            reply(json!({"parked": p}));
                            break;
                        }
                        if t0.elapsed().as_millis() as u64 >= wait_ms {
                            reply(json!({"parked": null}));
                            break;
                        }
                        tokio::time::sleep(std::time::Duration::from_millis(1)).await;
                    }
                }
                "release" => {
                    hooks::release();
                    // wait until un-parked
                    let t0 = std::time::Instant::now();
                    while hooks::parked().is_some() && t0.elapsed().as_secs() < 5 {
                        tokio::time::sleep(std::time::Duration::from_millis(1)).await;
                    }
                    reply(json!({"ok": true}));
                }
                "clock_secs" => {
                    hooks::set_clock_secs(req["v"].as_u64());
                    reply(json!({"ok": true}));
                }
                "clock_ms" => {
                    hooks::set_clock_millis(req["v"].as_u64());
                    reply(json!({"ok": true}));
                }
                "trace_start" => {
                    hooks::trace_start();
                    reply(json!({"ok": true}));
                }
                "trace_take" => {
                    reply(json!({"trace": hooks::trace_take()}));
                }
                "live" => {
                    let shard = req["shard"].as_u64().unwrap_or(0) as u32;
                    reply(json!({"live": hooks::live_segments(shard)}));
                }
                "mint_token" => {
                    // the second step of a connection AUTH (frontend/tcp/listener.rs: verify_signature, then
                    // generate_session_token) on its own: the driver places other requests between the two steps
                    let user = req["user"].as_str().unwrap_or("").to_string();
                    match ctx.auth_manager.as_ref() {
                        Some(am) => {
                            let t = am.generate_session_token(&user).await;
                            reply(json!({"token": t}));
                        }
                        None => reply(json!({"error": "no auth manager"})),
                    }
                }
                "tcp_start" => {
                    let ctx2 = Arc::clone(&ctx);
                    tokio::spawn(async move {
                        let _ = snel_db::frontend::tcp::listener::run_tcp_server(ctx2).await;
                    });
                    tokio::time::sleep(std::time::Duration::from_millis(50)).await;
                    reply(json!({"ok": true}));
                }
                "http_start" => {
                    let ctx2 = Arc::clone(&ctx);
                    tokio::spawn(async move {
                        let _ = snel_db::frontend::http::listener::run_http_server(ctx2).await;
                    });
                    tokio::time::sleep(std::time::Duration::from_millis(50)).await;
                    reply(json!({"ok": true}));
                }
                // one conversation over the Unix-socket front end's connection type (in-memory pipe instead of a socket)
                "unix_conn" => {
                    use tokio::io::{AsyncReadExt, AsyncWriteExt};
                    let lines: Vec<String> = req["lines"].as_array().map(|a| a.iter().filter_map(|v| v.as_str().map(|s| s.to_string())).collect()).unwrap_or_default();
                    let (mut client_w, server_r) = tokio::io::duplex(1 << 20);
                    let (server_w, mut client_r) = tokio::io::duplex(1 << 22);
                    let mut conn = snel_db::frontend::unix::connection::Connection {
                        pid: 0,
                        reader: tokio::io::BufReader::new(server_r),
                        writer: server_w,
                        shard_manager: Arc::clone(&ctx.shard_manager),
                        registry: Arc::clone(&ctx.registry),
                        renderer: Arc::new(snel_db::shared::response::unix::UnixRenderer),
                        auth_manager: ctx.auth_manager.clone(),
                    };
                    let h = tokio::spawn(async move {
                        let _ = conn.run().await;
                    });
                    for l in &lines {
                        let _ = client_w.write_all(l.as_bytes()).await;
                        let _ = client_w.write_all(b"\n").await;
                    }
                    drop(client_w);
                    let mut out = Vec::new();
                    let _ = tokio::time::timeout(std::time::Duration::from_secs(20), client_r.read_to_end(&mut out)).await;
                    let _ = h.await;
                    reply(json!({"out": String::from_utf8_lossy(&out)}));
                }
                "internal" => {
                    let v = crate::internal::handle(&req, &ctx).await;
                    reply(v);
                }
                "shutdown" => {
                    // the sequence of frontend::start_all's signal handler
                    let registry = Arc::clone(&ctx.registry);
                    let fe = ctx.shard_manager.flush_all(registry).await;
                    let se = ctx.shard_manager.shutdown_all().await;
                    // WAL shutdown message is queued behind appends; give the WAL task time to close
                    let t0 = std::time::Instant::now();
                    while !hooks::wal_drained() && t0.elapsed().as_secs() < 10 {
                        tokio::time::sleep(std::time::Duration::from_millis(1)).await;
                    }
                    tokio::time::sleep(std::time::Duration::from_millis(20)).await;
                    reply(json!({"ok": fe.is_empty() && se.is_empty(),
                        "flush_errors": fe.iter().map(|(i,e)| format!("{}:{}", i, e)).collect::<Vec<_>>(),
                        "shutdown_errors": se.iter().map(|(i,e)| format!("{}:{}", i, e)).collect::<Vec<_>>(),
                        "panics": take_panics()}));
                    break;
                }
                "exit" => {
                    reply(json!({"ok": true}));
                    std::process::exit(0);
                }
                _ => reply(json!({"error": format!("unknown op {}", op)})),
            }
        }
    });
    // dropping the runtime drops the remaining tasks (as at the end of the real main)
    drop(rt);
    std::process::exit(0);
}
