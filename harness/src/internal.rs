//! Component-level operations that must run inside a worker (they need the process-global CONFIG).
use serde_json::{Value, json};
use snel_db::frontend::context::FrontendContext;
use std::sync::Arc;

pub async fn handle(req: &Value, _ctx: &Arc<FrontendContext>) -> Value {
    let what = req["what"].as_str().unwrap_or("");
    match what {
        _ => json!({"error": format!("unknown internal op {}", what)}),
    }
}
