//! Component-level operations that must run inside a worker (they need the process-global CONFIG
//! or the hook clock).
use serde_json::{Value, json};
use snel_db::engine::core::EventIdGenerator;
use snel_db::frontend::context::FrontendContext;
use snel_db::verif_hooks as hooks;
use std::sync::Arc;

pub async fn handle(req: &Value, ctx: &Arc<FrontendContext>) -> Value {
    let _ctx = ctx;
    let what = req["what"].as_str().unwrap_or("");
    match what {
        // lifetimes: [{ "script": [ms relative to the lifetime's base...], "n": calls, "shard": id, "jump": ms }]
        // a fresh generator per lifetime; the base of a lifetime is the last clock reading of the previous
        // one plus `jump` (so "continues", "repeats" (0) and "precedes" (< 0) are exact)
        "idgen" => {
            let mut out = vec![];
            let mut bases = vec![];
            let mut base: i64 = req["base"].as_i64().unwrap_or(1_700_000_000_000);
            // highest millisecond any earlier lifetime can have used
            let mut prev_high: i64 = i64::MIN;
            for lt in req["lifetimes"].as_array().cloned().unwrap_or_default() {
                base += lt["jump"].as_i64().unwrap_or(0);
                if lt["ahead_of_previous"].as_bool() == Some(true) && base <= prev_high {
                    base = prev_high + 1;
                }
                let script: Vec<u64> = lt["script"]
                    .as_array()
                    .map(|a| a.iter().filter_map(|v| v.as_i64()).map(|v| (base + v).max(0) as u64).collect())
                    .unwrap_or_default();
                let n = lt["n"].as_u64().unwrap_or(0);
                let shard = lt["shard"].as_u64().unwrap_or(0) as u16;
                hooks::set_clock_millis_script(script);
                bases.push(base);
                let ids = tokio::task::spawn_blocking(move || {
                    let mut g = EventIdGenerator::new();
                    (0..n).map(|_| g.next(shard).raw()).collect::<Vec<u64>>()
                })
                .await
                .unwrap_or_default();
                // where the clock stands now (the reading itself advances a repeating tail by one)
                let max_script = lt["script"].as_array().map(|a| a.iter().filter_map(|v| v.as_i64()).max().unwrap_or(0)).unwrap_or(0);
                let final_reading = hooks::clock_millis_override().map(|v| v as i64).unwrap_or(base);
                prev_high = prev_high.max(base + max_script).max(final_reading);
                base = final_reading;
                out.push(json!(ids));
            }
            hooks::set_clock_millis_script(vec![]);
            json!({"lifetimes": out, "bases": bases})
        }
        // write WAL log files with the engine's own line format; returns the lines written per file
        "mkwal" => {
            use snel_db::engine::core::WalEntry;
            let shard = req["shard"].as_u64().unwrap_or(0) as usize;
            let dir = std::path::PathBuf::from(&snel_db::shared::config::CONFIG.wal.dir).join(format!("shard-{}", shard));
            let _ = std::fs::create_dir_all(&dir);
            let mut out = vec![];
            for f in req["files"].as_array().cloned().unwrap_or_default() {
                let id = f["id"].as_u64().unwrap_or(0);
                let mut text: Vec<u8> = Vec::new();
                let mut lines = vec![];
                let bad_at = f["bad_line_at"].as_u64().map(|v| v as usize);
                for (ei, e) in f["entries"].as_array().cloned().unwrap_or_default().into_iter().enumerate() {
                    if bad_at == Some(ei) {
                        // a line torn inside a multi-byte character (not valid UTF-8), later appends continue behind it
                        text.extend_from_slice(&[b'{', b'"', 0xE6, 0x9D, b'\n']);
                    }
                    let mut w = WalEntry {
                        timestamp: e["ts"].as_u64().unwrap_or(0),
                        context_id: e["ctx"].as_str().unwrap_or("").to_string(),
                        event_type: e["type"].as_str().unwrap_or("").to_string(),
                        payload: Default::default(),
                        event_id: snel_db::engine::core::EventId::from_raw(e["event_id"].as_u64().unwrap_or(0)),
                    };
                    w.set_payload_json(e["payload"].clone());
                    let line = serde_json::to_string(&w).unwrap_or_default();
                    text.extend_from_slice(line.as_bytes());
                    text.push(b'\n');
                    lines.push(line);
                }
                if bad_at.map(|p| p >= lines.len()).unwrap_or(false) {
                    text.extend_from_slice(&[b'{', b'"', 0xE6, 0x9D, b'\n']);
                }
                if let Some(t) = f["torn_tail"].as_str() {
                    text.extend_from_slice(t.as_bytes()); // an incomplete last line (no newline)
                }
                let path = dir.join(format!("wal-{:05}.log", id));
                let _ = std::fs::write(&path, text);
                out.push(json!({"id": id, "lines": lines}));
            }
            json!({"files": out, "dir": dir})
        }
        // production cleanup path + archive recovery
        "walclean" => {
            let shard = req["shard"].as_u64().unwrap_or(0) as usize;
            let keep_from = req["keep_from"].as_u64().unwrap_or(0);
            let cleaner = snel_db::engine::core::WalCleaner::new(shard);
            let r = tokio::task::spawn_blocking(move || {
                std::panic::catch_unwind(move || cleaner.cleanup_up_to(keep_from)).is_ok()
            })
            .await
            .unwrap_or(false);
            let archive_dir = std::path::PathBuf::from(&snel_db::shared::config::CONFIG.wal.archive_dir).join(format!("shard-{}", shard));
            let rec = snel_db::engine::core::WalArchiveRecovery::new(shard, archive_dir.clone());
            let recovered: Vec<String> = rec.recover_all().map(|v| v.iter().map(|e| serde_json::to_string(e).unwrap_or_default()).collect()).unwrap_or_default();
            let per_archive: Vec<Value> = rec
                .list_archives()
                .unwrap_or_default()
                .iter()
                .map(|p| json!({"name": p.file_name().map(|n| n.to_string_lossy().to_string()), "entries": rec.recover_from_archive(p).map(|v| v.iter().map(|e| serde_json::to_string(e).unwrap_or_default()).collect::<Vec<_>>()).ok()}))
                .collect();
            json!({"no_panic": r, "recovered": recovered, "archives": per_archive, "archive_dir": archive_dir})
        }
        // candidate zones of a query on one shard, from the real planner / selectors / pruners over the
        // live on-disk segments, next to the contents of every zone (the tag column k)
        "prune" => {
            use snel_db::command::parser::command::parse_command;
            use snel_db::engine::core::zone::selector::pruner::enum_pruner::EnumPruner;
            use snel_db::engine::core::zone::selector::pruner::range_pruner::RangePruner;
            use snel_db::engine::core::zone::selector::pruner::temporal_pruner::TemporalPruner;
            use snel_db::engine::core::zone::selector::pruner::xor_pruner::XorPruner;
            use snel_db::engine::core::zone::selector::pruner::{PruneArgs, ZonePruner};
            use snel_db::engine::core::zone::zone_artifacts::ZoneArtifacts;
            use snel_db::engine::core::{CandidateZone, ColumnLoader, ExecutionStep, FilterGroup, QueryPlan, ZoneCollector};
            let shard = req["shard"].as_u64().unwrap_or(0) as u32;
            let Some(base_dir) = hooks::shard_dir(shard) else { return json!({"error": "no shard"}) };
            let live = hooks::live_segments(shard).unwrap_or_default();
            let event_type = req["event_type"].as_str().unwrap_or("").to_string();
            let uid = { ctx.registry.read().await.get_uid(&event_type) };
            let Some(uid) = uid else { return json!({"error": "no uid"}) };
            // zone contents
            let mut zones_out = vec![];
            for seg in &live {
                let zs = CandidateZone::create_all_zones_for_segment_from_meta(&base_dir, seg, &uid);
                let loader = ColumnLoader::new(base_dir.clone(), uid.clone());
                for z in zs {
                    let vals = loader.load_all_columns(&z, &["k".to_string()]);
                    let mut ks = vec![];
                    if let Some(col) = vals.get("k") {
                        for i in 0..col.len() {
                            ks.push(col.get_i64_at(i));
                        }
                    }
                    zones_out.push(json!({"segment": seg, "zone": z.zone_id, "ks": ks}));
                }
            }
            let mut queries_out = vec![];
            for q in req["queries"].as_array().cloned().unwrap_or_default() {
                let text = q.as_str().unwrap_or("").to_string();
                let cmd = match parse_command(&text) {
                    Ok(c) => c,
                    Err(e) => {
                        queries_out.push(json!({"query": text, "error": format!("parse: {:?}", e)}));
                        continue;
                    }
                };
                let seg_ids = Arc::new(std::sync::RwLock::new(live.clone()));
                let Some(plan) = QueryPlan::new(cmd, &ctx.registry, &base_dir, &seg_ids, None).await else {
                    queries_out.push(json!({"query": text, "error": "no plan"}));
                    continue;
                };
                let plan = Arc::new(plan);
                let plan2 = Arc::clone(&plan);
                let base2 = base_dir.clone();
                let live2 = live.clone();
                let uid2 = uid.clone();
                let r = tokio::task::spawn_blocking(move || {
                    std::panic::catch_unwind(std::panic::AssertUnwindSafe(|| {
                        let steps: Vec<ExecutionStep<'_>> = plan2.filter_groups.iter().map(|f| ExecutionStep::new(f.clone(), plan2.as_ref())).collect();
                        let collected: Vec<Value> = ZoneCollector::new(plan2.as_ref(), steps).collect_zones().iter().map(|z| json!([z.segment_id, z.zone_id])).collect();
                        // every structure on its own, for each plain comparison of the plan
                        let mut filters = vec![];
                        for f in &plan2.filter_groups {
                            let FilterGroup::Filter { column, operation, value, index_strategy, .. } = f else { continue };
                            if column == "event_type" || column == "context_id" || value.is_none() || operation.is_none() {
                                continue;
                            }
                            let mut per_seg = vec![];
                            for seg in &live2 {
                                let args = PruneArgs { segment_id: seg, uid: &uid2, column, value: value.as_ref(), op: operation.as_ref() };
                                let ids = |r: Option<Vec<CandidateZone>>| r.map(|v| v.iter().map(|z| z.zone_id).collect::<Vec<u32>>());
                                let surf = ids(RangePruner { artifacts: ZoneArtifacts::new(&base2, None) }.apply_surf_only(&args));
                                let zxf = ids(XorPruner { artifacts: ZoneArtifacts::new(&base2, None) }.apply_zone_index_only(&args));
                                let xf = ids(XorPruner { artifacts: ZoneArtifacts::new(&base2, None) }.apply_presence_only(&args));
                                let ebm = ids(EnumPruner { artifacts: ZoneArtifacts::new(&base2, None) }.apply(&args));
                                let temporal = ids(TemporalPruner { artifacts: ZoneArtifacts::new(&base2, None) }.apply_temporal_only(&args));
                                per_seg.push(json!({"segment": seg, "surf": surf, "zxf": zxf, "xf": xf, "ebm": ebm, "temporal": temporal}));
                            }
                            filters.push(json!({"column": column, "op": format!("{:?}", operation), "value": format!("{:?}", value), "strategy": format!("{:?}", index_strategy), "segments": per_seg}));
                        }
                        json!({"collected": collected, "filters": filters})
                    }))
                })
                .await;
                match r {
                    Ok(Ok(v)) => queries_out.push(json!({"query": text, "result": v})),
                    _ => queries_out.push(json!({"query": text, "error": "panic"})),
                }
            }
            json!({"zones": zones_out, "queries": queries_out, "live": live})
        }
        _ => json!({"error": format!("unknown internal op {}", what)}),
    }
}
