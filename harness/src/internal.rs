//! Component-level operations that must run inside a worker (they need the process-global CONFIG
//! or the hook clock).
use serde_json::{Value, json};
use snel_db::engine::core::EventIdGenerator;
use snel_db::frontend::context::FrontendContext;
use snel_db::verif_hooks as hooks;
use std::sync::Arc;

pub async fn handle(req: &Value, _ctx: &Arc<FrontendContext>) -> Value {
    let what = req["what"].as_str().unwrap_or("");
    match what {
        // lifetimes: [{ "script": [ms relative to the lifetime's base...], "n": calls, "shard": id, "jump": ms }]
        // a fresh generator per lifetime; the base of a lifetime is the last clock reading of the previous
        // one plus `jump` (so "continues", "repeats" (0) and "precedes" (< 0) are exact)
        "idgen" => {
            let mut out = vec![];
            let mut bases = vec![];
            let mut base: i64 = req["base"].as_i64().unwrap_or(1_700_000_000_000);
            // highest millisecond any earlier lifetime can have used
            let mut prev_high: i64 = i64::MIN;
            for lt in req["lifetimes"].as_array().cloned().unwrap_or_default() {
                base += lt["jump"].as_i64().unwrap_or(0);
                if lt["ahead_of_previous"].as_bool() == Some(true) && base <= prev_high {
                    base = prev_high + 1;
                }
                let script: Vec<u64> = lt["script"]
                    .as_array()
                    .map(|a| a.iter().filter_map(|v| v.as_i64()).map(|v| (base + v).max(0) as u64).collect())
                    .unwrap_or_default();
                let n = lt["n"].as_u64().unwrap_or(0);
                let shard = lt["shard"].as_u64().unwrap_or(0) as u16;
                hooks::set_clock_millis_script(script);
                bases.push(base);
                let ids = tokio::task::spawn_blocking(move || {
                    let mut g = EventIdGenerator::new();
                    (0..n).map(|_| g.next(shard).raw()).collect::<Vec<u64>>()
                })
                .await
                .unwrap_or_default();
                // where the clock stands now (the reading itself advances a repeating tail by one)
                let max_script = lt["script"].as_array().map(|a| a.iter().filter_map(|v| v.as_i64()).max().unwrap_or(0)).unwrap_or(0);
                let final_reading = hooks::clock_millis_override().map(|v| v as i64).unwrap_or(base);
                prev_high = prev_high.max(base + max_script).max(final_reading);
                base = final_reading;
                out.push(json!(ids));
            }
            hooks::set_clock_millis_script(vec![]);
            json!({"lifetimes": out, "bases": bases})
        }
        _ => json!({"error": format!("unknown internal op {}", what)}),
    }
}
