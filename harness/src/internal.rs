//! Component-level operations that must run inside a worker (they need the process-global CONFIG
//! or the hook clock).
use serde_json::{Value, json};
use snel_db::engine::core::EventIdGenerator;
use snel_db::frontend::context::FrontendContext;
use snel_db::verif_hooks as hooks;
use std::sync::Arc;

pub async fn handle(req: &Value, _ctx: &Arc<FrontendContext>) -> Value {
    let what = req["what"].as_str().unwrap_or("");
    match what {
        // lifetimes: [{ "script": [ms relative to the lifetime's base...], "n": calls, "shard": id, "jump": ms }]
        // a fresh generator per lifetime; the base of a lifetime is the last clock reading of the previous
        // one plus `jump` (so "continues", "repeats" (0) and "precedes" (< 0) are exact)
        "idgen" => {
            let mut out = vec![];
            let mut bases = vec![];
            let mut base: i64 = req["base"].as_i64().unwrap_or(1_700_000_000_000);
            // highest millisecond any earlier lifetime can have used
            let mut prev_high: i64 = i64::MIN;
            for lt in req["lifetimes"].as_array().cloned().unwrap_or_default() {
                base += lt["jump"].as_i64().unwrap_or(0);
                if lt["ahead_of_previous"].as_bool() == Some(true) && base <= prev_high {
                    base = prev_high + 1;
                }
                let script: Vec<u64> = lt["script"]
                    .as_array()
                    .map(|a| a.iter().filter_map(|v| v.as_i64()).map(|v| (base + v).max(0) as u64).collect())
                    .unwrap_or_default();
                let n = lt["n"].as_u64().unwrap_or(0);
                let shard = lt["shard"].as_u64().unwrap_or(0) as u16;
                hooks::set_clock_millis_script(script);
                bases.push(base);
                let ids = tokio::task::spawn_blocking(move || {
                    let mut g = EventIdGenerator::new();
                    (0..n).map(|_| g.next(shard).raw()).collect::<Vec<u64>>()
                })
                .await
                .unwrap_or_default();
                // where the clock stands now (the reading itself advances a repeating tail by one)
                let max_script = lt["script"].as_array().map(|a| a.iter().filter_map(|v| v.as_i64()).max().unwrap_or(0)).unwrap_or(0);
                let final_reading = hooks::clock_millis_override().map(|v| v as i64).unwrap_or(base);
                prev_high = prev_high.max(base + max_script).max(final_reading);
                base = final_reading;
                out.push(json!(ids));
            }
            hooks::set_clock_millis_script(vec![]);
            json!({"lifetimes": out, "bases": bases})
        }
        // write WAL log files with the engine's own line format; returns the lines written per file
        "mkwal" => {
            use snel_db::engine::core::WalEntry;
            let shard = req["shard"].as_u64().unwrap_or(0) as usize;
            let dir = std::path::PathBuf::from(&snel_db::shared::config::CONFIG.wal.dir).join(format!("shard-{}", shard));
            let _ = std::fs::create_dir_all(&dir);
            let mut out = vec![];
            for f in req["files"].as_array().cloned().unwrap_or_default() {
                let id = f["id"].as_u64().unwrap_or(0);
                let mut text = String::new();
                let mut lines = vec![];
                for e in f["entries"].as_array().cloned().unwrap_or_default() {
                    let mut w = WalEntry {
                        timestamp: e["ts"].as_u64().unwrap_or(0),
                        context_id: e["ctx"].as_str().unwrap_or("").to_string(),
                        event_type: e["type"].as_str().unwrap_or("").to_string(),
                        payload: Default::default(),
                        event_id: snel_db::engine::core::EventId::from_raw(e["event_id"].as_u64().unwrap_or(0)),
                    };
                    w.set_payload_json(e["payload"].clone());
                    let line = serde_json::to_string(&w).unwrap_or_default();
                    text.push_str(&line);
                    text.push('\n');
                    lines.push(line);
                }
                if let Some(t) = f["torn_tail"].as_str() {
                    text.push_str(t); // an incomplete last line (no newline)
                }
                let path = dir.join(format!("wal-{:05}.log", id));
                let _ = std::fs::write(&path, text);
                out.push(json!({"id": id, "lines": lines}));
            }
            json!({"files": out, "dir": dir})
        }
        // production cleanup path + archive recovery
        "walclean" => {
            let shard = req["shard"].as_u64().unwrap_or(0) as usize;
            let keep_from = req["keep_from"].as_u64().unwrap_or(0);
            let cleaner = snel_db::engine::core::WalCleaner::new(shard);
            let r = tokio::task::spawn_blocking(move || {
                std::panic::catch_unwind(move || cleaner.cleanup_up_to(keep_from)).is_ok()
            })
            .await
            .unwrap_or(false);
            let archive_dir = std::path::PathBuf::from(&snel_db::shared::config::CONFIG.wal.archive_dir).join(format!("shard-{}", shard));
            let rec = snel_db::engine::core::WalArchiveRecovery::new(shard, archive_dir.clone());
            let recovered: Vec<String> = rec.recover_all().map(|v| v.iter().map(|e| serde_json::to_string(e).unwrap_or_default()).collect()).unwrap_or_default();
            let per_archive: Vec<Value> = rec
                .list_archives()
                .unwrap_or_default()
                .iter()
                .map(|p| json!({"name": p.file_name().map(|n| n.to_string_lossy().to_string()), "entries": rec.recover_from_archive(p).map(|v| v.iter().map(|e| serde_json::to_string(e).unwrap_or_default()).collect::<Vec<_>>()).ok()}))
                .collect();
            json!({"no_panic": r, "recovered": recovered, "archives": per_archive, "archive_dir": archive_dir})
        }
        _ => json!({"error": format!("unknown internal op {}", what)}),
    }
}
