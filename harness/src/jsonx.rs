//! Minimal JSON parser producing serde_json::Value with exactly-rounded floats
//! (serde_json's default float parsing can be off by one ulp; the harness must not
//! introduce such an error into a comparison of stored and returned values).

use serde_json::{Map, Number, Value};

pub fn parse(s: &str) -> Result<Value, String> {
    let b = s.as_bytes();
    let mut i = 0;
    let v = val(b, &mut i)?;
    ws(b, &mut i);
    if i != b.len() {
        return Err(format!("trailing data at {}", i));
    }
    Ok(v)
}

fn ws(b: &[u8], i: &mut usize) {
    while *i < b.len() && matches!(b[*i], b' ' | b'\t' | b'\n' | b'\r') {
        *i += 1;
    }
}

fn val(b: &[u8], i: &mut usize) -> Result<Value, String> {
    ws(b, i);
    if *i >= b.len() {
        return Err("eof".into());
    }
    match b[*i] {
        b'{' => {
            *i += 1;
            let mut m = Map::new();
            ws(b, i);
            if *i < b.len() && b[*i] == b'}' {
                *i += 1;
                return Ok(Value::Object(m));
            }
            loop {
                ws(b, i);
                let k = match string(b, i)? {
                    Value::String(s) => s,
                    _ => unreachable!(),
                };
                ws(b, i);
                if *i >= b.len() || b[*i] != b':' {
                    return Err(format!("expected : at {}", i));
                }
                *i += 1;
                let v = val(b, i)?;
                m.insert(k, v);
                ws(b, i);
                if *i < b.len() && b[*i] == b',' {
                    *i += 1;
                    continue;
                }
                if *i < b.len() && b[*i] == b'}' {
                    *i += 1;
                    return Ok(Value::Object(m));
                }
                return Err(format!("expected , or }} at {}", i));
            }
        }
        b'[' => {
            *i += 1;
            let mut a = vec![];
            ws(b, i);
            if *i < b.len() && b[*i] == b']' {
                *i += 1;
                return Ok(Value::Array(a));
            }
            loop {
                a.push(val(b, i)?);
                ws(b, i);
                if *i < b.len() && b[*i] == b',' {
                    *i += 1;
                    continue;
                }
                if *i < b.len() && b[*i] == b']' {
                    *i += 1;
                    return Ok(Value::Array(a));
                }
                return Err(format!("expected , or ] at {}", i));
            }
        }
        b'"' => string(b, i),
        b't' if b[*i..].starts_with(b"true") => {
            *i += 4;
            Ok(Value::Bool(true))
        }
        b'f' if b[*i..].starts_with(b"false") => {
            *i += 5;
            Ok(Value::Bool(false))
        }
        b'n' if b[*i..].starts_with(b"null") => {
            *i += 4;
            Ok(Value::Null)
        }
        _ => number(b, i),
    }
}

fn string(b: &[u8], i: &mut usize) -> Result<Value, String> {
    if *i >= b.len() || b[*i] != b'"' {
        return Err(format!("expected string at {}", i));
    }
    let start = *i;
    *i += 1;
    while *i < b.len() {
        match b[*i] {
            b'\\' => *i += 2,
            b'"' => {
                *i += 1;
                let text = std::str::from_utf8(&b[start..*i]).map_err(|e| e.to_string())?;
                // strings carry no float: serde_json decodes escapes exactly
                return serde_json::from_str::<Value>(text).map_err(|e| e.to_string());
            }
            _ => *i += 1,
        }
    }
    Err("unterminated string".into())
}

fn number(b: &[u8], i: &mut usize) -> Result<Value, String> {
    let start = *i;
    while *i < b.len() && matches!(b[*i], b'-' | b'+' | b'.' | b'e' | b'E' | b'0'..=b'9') {
        *i += 1;
    }
    let t = std::str::from_utf8(&b[start..*i]).map_err(|e| e.to_string())?;
    if t.is_empty() {
        return Err(format!("unexpected byte at {}", start));
    }
    if !t.contains(['.', 'e', 'E']) {
        if let Ok(v) = t.parse::<i64>() {
            return Ok(Value::Number(v.into()));
        }
        if let Ok(v) = t.parse::<u64>() {
            return Ok(Value::Number(v.into()));
        }
    }
    let f: f64 = t.parse().map_err(|_| format!("bad number {}", t))?;
    Number::from_f64(f).map(Value::Number).ok_or_else(|| format!("non-finite number {}", t))
}
