//! Ad-hoc probing: run a file of command lines / directives against fresh workers.
//! Directives: !cfg k=v ..., !open, !barrier, !compact N, !kill, !shutdown, !restart,
//! !crash step nth, !pause step nth, !parked, !release, !clock N, !sleep ms, !live N, !ls,
//! !raw <cmd> (print raw output), !unix <cmd>, !keep

use crate::db::{CaseDir, Db, DbConfig};
use serde_json::json;

fn apply_cfg(cfg: &mut DbConfig, kv: &str) {
    let Some((k, v)) = kv.split_once('=') else { return };
    match k {
        "shards" => cfg.shard_count = v.parse().unwrap(),
        "epz" => cfg.event_per_zone = v.parse().unwrap(),
        "ff" => cfg.fill_factor = v.parse().unwrap(),
        "spm" => cfg.segments_per_merge = v.parse().unwrap(),
        "mip" => cfg.max_inflight_passives = v.parse().unwrap(),
        "few" => cfg.wal_flush_each_write = v.parse().unwrap(),
        "buffered" => cfg.wal_buffered = v.parse().unwrap(),
        "cons" => cfg.conservative_mode = v.parse().unwrap(),
        "sbs" => cfg.streaming_batch_size = v.parse().unwrap(),
        "tz" => cfg.timezone = v.to_string(),
        "ws" => cfg.week_start = v.to_string(),
        "bypass" => cfg.bypass_auth = v.parse().unwrap(),
        "admin" => cfg.admin_user = Some(v.to_string()),
        "key" => cfg.admin_key = Some(v.to_string()),
        "port" => cfg.tcp_port = v.parse().unwrap(),
        _ => eprintln!("unknown cfg key {}", k),
    }
}

fn ls(dir: &std::path::Path, indent: usize) {
    let mut ents: Vec<_> = std::fs::read_dir(dir).map(|d| d.flatten().collect()).unwrap_or_default();
    ents.sort_by_key(|e: &std::fs::DirEntry| e.file_name());
    for e in ents {
        let p = e.path();
        let md = e.metadata().ok();
        println!(
            "{}{}{}",
            " ".repeat(indent),
            e.file_name().to_string_lossy(),
            if p.is_dir() { "/".to_string() } else { format!(" ({})", md.map(|m| m.len()).unwrap_or(0)) }
        );
        if p.is_dir() && indent < 12 {
            ls(&p, indent + 2);
        }
    }
}

pub fn run_script_file(path: &str) -> i32 {
    let text = std::fs::read_to_string(path).expect("read script");
    let mut cfg = DbConfig::default();
    let mut case = CaseDir::new("script");
    let mut db: Option<Db> = None;
    for line in text.lines() {
        let line = line.trim();
        if line.is_empty() || line.starts_with('#') {
            continue;
        }
        println!(">> {}", line);
        if let Some(rest) = line.strip_prefix('!') {
            let parts: Vec<&str> = rest.split_whitespace().collect();
            match parts[0] {
                "cfg" => {
                    for kv in &parts[1..] {
                        apply_cfg(&mut cfg, kv);
                    }
                }
                "keep" => case.keep = true,
                "open" => {
                    db = Some(Db::open(&case.path, &cfg).expect("open"));
                }
                "barrier" => println!("{:?}", db.as_mut().unwrap().barrier()),
                "compact" => println!("{:?}", db.as_mut().unwrap().compact(parts[1].parse().unwrap())),
                "kill" => {
                    db.as_mut().unwrap().kill();
                }
                "shutdown" => println!("{:?}", db.as_mut().unwrap().shutdown()),
                "restart" => {
                    println!("{:?}", db.as_mut().unwrap().shutdown());
                    db = Some(Db::open(&case.path, &cfg).expect("open"));
                }
                "crash" => println!(
                    "{:?}",
                    db.as_mut().unwrap().req(json!({"op":"arm_crash","step":parts[1],"nth":parts.get(2).map(|s| s.parse::<u64>().unwrap()).unwrap_or(1)}))
                ),
                "pause" => println!(
                    "{:?}",
                    db.as_mut().unwrap().req(json!({"op":"arm_pause","step":parts[1],"nth":parts.get(2).map(|s| s.parse::<u64>().unwrap()).unwrap_or(1)}))
                ),
                "parked" => println!("{:?}", db.as_mut().unwrap().req(json!({"op":"parked","wait_ms":2000}))),
                "release" => println!("{:?}", db.as_mut().unwrap().req(json!({"op":"release"}))),
                "waitdead" => println!("dead={}", db.as_mut().unwrap().wait_dead(std::time::Duration::from_secs(5))),
                "clock" => println!("{:?}", db.as_mut().unwrap().set_clock_secs(parts[1].parse().unwrap())),
                "clockms" => println!("{:?}", db.as_mut().unwrap().req(json!({"op":"clock_ms","v":parts[1].parse::<u64>().unwrap()}))),
                "sleep" => std::thread::sleep(std::time::Duration::from_millis(parts[1].parse().unwrap())),
                "live" => println!("{:?}", db.as_mut().unwrap().live(parts[1].parse().unwrap())),
                "trace_start" => println!("{:?}", db.as_mut().unwrap().req(json!({"op":"trace_start"}))),
                "trace" => println!("{:?}", db.as_mut().unwrap().req(json!({"op":"trace_take"}))),
                "ls" => ls(&case.path, 2),
                "raw" | "unix" | "arrow" => {
                    let cmd = rest[parts[0].len()..].trim();
                    let renderer = if parts[0] == "raw" { "json" } else { parts[0] };
                    match db.as_mut().unwrap().cmd_with(cmd, renderer, None, false) {
                        Ok(r) => println!("{}{}", r.raw, r.raw_b64.map(|b| format!("<b64 {} chars>", b.len())).unwrap_or_default()),
                        Err(e) => println!("ERR {}", e),
                    }
                }
                "internal" => {
                    let v: serde_json::Value = serde_json::from_str(rest[parts[0].len()..].trim()).expect("json");
                    println!("{:?}", db.as_mut().unwrap().req(v));
                }
                other => eprintln!("unknown directive {}", other),
            }
            continue;
        }
        if db.is_none() {
            db = Some(Db::open(&case.path, &cfg).expect("open"));
        }
        match db.as_mut().unwrap().cmd(line) {
            Ok(r) => {
                if let Some(e) = &r.parse_error {
                    println!("   PARSE ERROR {}", e);
                } else if r.parse_panic || r.dispatch_panic {
                    println!("   PANIC parse={} dispatch={} {:?}", r.parse_panic, r.dispatch_panic, r.panics);
                } else if r.streamed {
                    println!("   cols={:?}", r.columns.iter().map(|c| format!("{}:{}", c.0, c.1)).collect::<Vec<_>>());
                    for row in &r.rows {
                        println!("   {}", serde_json::to_string(row).unwrap());
                    }
                    println!("   end={:?}", r.end_count);
                } else {
                    println!("   status={} msg={} results={}", r.status, r.message, serde_json::to_string(&r.results).unwrap());
                }
                if !r.panics.is_empty() {
                    println!("   PANICS {:?}", r.panics);
                }
            }
            Err(e) => println!("   ERR {}", e),
        }
    }
    if let Some(d) = db.as_mut() {
        if d.alive {
            d.kill();
        }
        if !d.panics.is_empty() {
            println!("worker panics: {:?}", d.panics);
        }
    }
    if std::env::var("VCHECK_TRACE").is_ok() {
        for e in std::fs::read_dir(&case.path).unwrap().flatten() {
            if e.file_name().to_string_lossy().starts_with("stderr") {
                println!("---- {}", e.file_name().to_string_lossy());
                print!("{}", std::fs::read_to_string(e.path()).unwrap_or_default());
            }
        }
    }
    if case.keep {
        println!("kept {}", case.path.display());
    }
    0
}
