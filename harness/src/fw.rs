//! Check framework: context, proptest-driven exploration in parallel lanes, shrinking,
//! replay files, known findings, evidence files, exit codes.

use proptest::strategy::{Strategy, ValueTree};
use proptest::test_runner::{Config, RngAlgorithm, TestCaseError, TestError, TestRng, TestRunner};
use serde::{Deserialize, Serialize};
use serde_json::{Map, Value, json};
use sha2::{Digest, Sha256};
use std::collections::{BTreeMap, BTreeSet};
use std::path::PathBuf;
use std::sync::Mutex;
use std::sync::atomic::{AtomicBool, Ordering};

#[derive(Clone, Copy, Debug, PartialEq)]
pub enum Tier {
    Quick,
    Thorough,
}

impl Tier {
    pub fn name(&self) -> &'static str {
        match self {
            Tier::Quick => "quick",
            Tier::Thorough => "thorough",
        }
    }
    /// pick by tier
    pub fn pick<T>(&self, q: T, t: T) -> T {
        match self {
            Tier::Quick => q,
            Tier::Thorough => t,
        }
    }
}

#[derive(Clone, Debug, Serialize, Deserialize)]
pub struct KnownFinding {
    pub property: String,
    pub id: String,
    /// "open" (recorded, not repaired) or "fixed"
    pub status: String,
    pub what: String,
    /// input class excluded from exploration while the finding is open
    #[serde(default)]
    pub class: String,
    /// replay file (relative to /verif) that exhibits it
    #[serde(default)]
    pub replay: String,
    /// failure signature prefix the replay is expected to produce while open
    #[serde(default)]
    pub signature: String,
    #[serde(default)]
    pub commit: String,
    /// for fixed entries: "fixed: property=<id> <commit> <what failed>"
    #[serde(default)]
    pub line: String,
}

pub fn verif_root() -> PathBuf {
    PathBuf::from(std::env::var("VERIF_ROOT").unwrap_or_else(|_| "/verif".into()))
}

pub struct Ctx {
    pub prop: String,
    pub tier: Tier,
    pub seed: u64,
    pub known: Vec<KnownFinding>,
    pub lanes: usize,
    pub t0: std::time::Instant,
}

impl Ctx {
    pub fn new(prop: &str, tier: Tier, seed: u64) -> Ctx {
        let kf_path = verif_root().join("known_findings.json");
        let known: Vec<KnownFinding> = std::fs::read_to_string(&kf_path)
            .ok()
            .and_then(|s| serde_json::from_str::<Value>(&s).ok())
            .and_then(|v| serde_json::from_value(v["findings"].clone()).ok())
            .unwrap_or_default();
        // experiments only: treat the listed findings as not recorded (VCHECK_IGNORE_KNOWN=id,id | all)
        let ignore = std::env::var("VCHECK_IGNORE_KNOWN").unwrap_or_default();
        let known: Vec<KnownFinding> = known
            .into_iter()
            .filter(|k| !(ignore == "all" || ignore.split(',').any(|i| i == k.id)))
            .collect();
        let lanes = std::env::var("VCHECK_LANES").ok().and_then(|s| s.parse().ok()).unwrap_or(8);
        Ctx {
            prop: prop.to_string(),
            tier,
            seed,
            known,
            lanes,
            t0: std::time::Instant::now(),
        }
    }
    /// Is the input class of an open (recorded, unrepaired) finding of this property?
    pub fn open(&self, class: &str) -> bool {
        self.known
            .iter()
            .any(|k| k.status == "open" && k.class == class && (k.property == self.prop || k.property == "*"))
    }
    /// open finding in any property (shared defects)
    pub fn open_any(&self, class: &str) -> bool {
        self.known.iter().any(|k| k.status == "open" && k.class == class)
    }
    pub fn findings(&self) -> Vec<KnownFinding> {
        self.known.iter().filter(|k| k.property == self.prop).cloned().collect()
    }
}

#[derive(Debug, Clone)]
pub enum Verdict {
    Pass,
    Fail { sig: String, detail: Value },
    Discard(String),
}

impl Verdict {
    pub fn fail(sig: impl Into<String>, detail: Value) -> Verdict {
        Verdict::Fail { sig: sig.into(), detail }
    }
    pub fn is_fail(&self) -> bool {
        matches!(self, Verdict::Fail { .. })
    }
}

/// Filled by a property for each executed case.
#[derive(Default, Debug)]
pub struct CaseReport {
    pub labels: Vec<String>,
    pub nontrivial: bool,
    pub sample: Option<Value>,
    /// number of sub-evaluations (queries, probes ...) inside this case
    pub sub_evals: u64,
    pub excluded_known: u64,
    /// engine hung / watchdog: inconclusive
    pub inconclusive: Option<String>,
}

impl CaseReport {
    pub fn label(&mut self, l: impl Into<String>) {
        self.labels.push(l.into());
    }
}

#[derive(Default)]
pub struct Stats {
    pub evaluations: u64,
    pub sub_evals: u64,
    pub nontrivial: BTreeSet<String>,
    pub labels: BTreeMap<String, u64>,
    pub samples: Vec<Value>,
    pub discards: BTreeMap<String, u64>,
    pub excluded_known: u64,
    pub replayed: u64,
    pub inconclusive: Vec<String>,
    pub extra: Map<String, Value>,
    pub exhaustive: Option<bool>,
}

pub fn fingerprint(v: &Value) -> String {
    let mut h = Sha256::new();
    h.update(v.to_string().as_bytes());
    hex::encode(&h.finalize()[..8])
}

#[derive(Debug, Clone)]
pub struct Failure {
    pub check: String,
    pub sig: String,
    pub detail: Value,
    pub case: Value,
}

pub struct Explore {
    pub cases: u32,
    pub max_shrink_iters: u32,
    pub lanes: usize,
}

/// Run `cases` generated cases of `strat` through `f`, split over lanes. Returns the first
/// (shrunk) failure, if any. Statistics are accumulated into `stats` (not during shrinking).
pub fn explore<T, S, G, F>(
    ctx: &Ctx,
    check: &str,
    make_strat: G,
    ex: Explore,
    stats: &Mutex<Stats>,
    f: F,
) -> Option<Failure>
where
    T: std::fmt::Debug + Clone + Serialize,
    S: Strategy<Value = T>,
    G: Fn() -> S + Sync,
    F: Fn(&T, &mut CaseReport) -> Verdict + Sync,
{
    let stop = AtomicBool::new(false);
    let winner = std::sync::atomic::AtomicUsize::new(usize::MAX);
    // last failing (sig, detail, case) seen by the winning lane, used when the minimal case is flaky
    let last_fail: Mutex<Option<(String, Value, Value)>> = Mutex::new(None);
    let result: Mutex<Option<Failure>> = Mutex::new(None);
    let lanes = ex.lanes.max(1).min(ex.cases.max(1) as usize);
    let per_lane = (ex.cases as usize + lanes - 1) / lanes;
    std::thread::scope(|sc| {
        for lane in 0..lanes {
            let make_strat = &make_strat;
            let stop = &stop;
            let winner = &winner;
            let last_fail = &last_fail;
            let result = &result;
            let f = &f;
            let stats = stats;
            sc.spawn(move || {
                let strat = make_strat();
                let mut seed = [0u8; 32];
                let mut h = Sha256::new();
                h.update(ctx.seed.to_le_bytes());
                h.update(check.as_bytes());
                h.update((lane as u64).to_le_bytes());
                seed.copy_from_slice(&h.finalize());
                let rng = TestRng::from_seed(RngAlgorithm::ChaCha, &seed);
                let cfg = Config {
                    cases: per_lane as u32,
                    failure_persistence: None,
                    max_shrink_iters: ex.max_shrink_iters,
                    max_global_rejects: 100_000,
                    ..Config::default()
                };
                let mut runner = TestRunner::new_with_rng(cfg, rng);
                let failed_here = AtomicBool::new(false);
                let r = runner.run(&strat, |t| {
                    if stop.load(Ordering::SeqCst) && winner.load(Ordering::SeqCst) != lane {
                        // another lane owns the failure: finish quickly, do not shrink here
                        return Ok(());
                    }
                    let mut rep = CaseReport::default();
                    let v = f(&t, &mut rep);
                    if !failed_here.load(Ordering::SeqCst) {
                        let mut st = stats.lock().unwrap();
                        st.evaluations += 1;
                        st.sub_evals += rep.sub_evals;
                        st.excluded_known += rep.excluded_known;
                        for l in &rep.labels {
                            *st.labels.entry(l.clone()).or_insert(0) += 1;
                        }
                        if let Some(inc) = &rep.inconclusive {
                            st.inconclusive.push(inc.clone());
                        }
                        if rep.nontrivial {
                            let fp = fingerprint(&serde_json::to_value(&t).unwrap_or(Value::Null));
                            st.nontrivial.insert(fp);
                        }
                        if let Some(s) = rep.sample.take() {
                            if st.samples.len() < 5 {
                                st.samples.push(s);
                            }
                        }
                        if let Verdict::Discard(r) = &v {
                            *st.discards.entry(r.clone()).or_insert(0) += 1;
                        }
                    }
                    match v {
                        Verdict::Pass | Verdict::Discard(_) => Ok(()),
                        Verdict::Fail { sig, detail } => {
                            let _ = winner.compare_exchange(usize::MAX, lane, Ordering::SeqCst, Ordering::SeqCst);
                            stop.store(true, Ordering::SeqCst);
                            if winner.load(Ordering::SeqCst) != lane {
                                return Ok(());
                            }
                            failed_here.store(true, Ordering::SeqCst);
                            *last_fail.lock().unwrap() =
                                Some((sig.clone(), detail, serde_json::to_value(&t).unwrap_or(Value::Null)));
                            Err(TestCaseError::fail(sig))
                        }
                    }
                });
                if let Err(TestError::Fail(reason, value)) = r {
                    // re-run on the minimal value for the detail
                    let mut rep = CaseReport::default();
                    let v = f(&value, &mut rep);
                    let mut case_json = serde_json::to_value(&value).unwrap_or(Value::Null);
                    let (sig, detail) = match v {
                        Verdict::Fail { sig, detail } => (sig, detail),
                        _ => match last_fail.lock().unwrap().take() {
                            Some((sig, mut detail, case)) => {
                                // the minimal case did not fail on re-run: report the last failing execution
                                if let Some(o) = detail.as_object_mut() {
                                    o.insert("flaky".into(), json!("minimal case passed on re-run; this is the last failing execution"));
                                }
                                case_json = case;
                                (sig, detail)
                            }
                            None => (format!("{}", reason), json!({"note": "flaky"})),
                        },
                    };
                    let mut g = result.lock().unwrap();
                    if g.is_none() {
                        *g = Some(Failure { check: check.to_string(), sig, detail, case: case_json });
                    }
                } else if let Err(TestError::Abort(reason)) = r {
                    let mut st = stats.lock().unwrap();
                    st.inconclusive.push(format!("proptest abort: {}", reason));
                }
            });
        }
    });
    result.into_inner().unwrap()
}

/// Draw one value from a strategy with a fixed seed (for enumerations that still want generated parts).
pub fn sample_one<S: Strategy>(strat: &S, seed: u64) -> S::Value {
    let mut s = [0u8; 32];
    s[..8].copy_from_slice(&seed.to_le_bytes());
    let mut runner = TestRunner::new_with_rng(Config::default(), TestRng::from_seed(RngAlgorithm::ChaCha, &s));
    strat.new_tree(&mut runner).unwrap().current()
}

pub struct Report {
    pub ctx_prop: String,
    pub level: String,
    pub rule: String,
    pub assumptions: Vec<String>,
    pub violations: Vec<Failure>,
    pub known_lines: Vec<String>,
    pub notes: Vec<String>,
}

impl Report {
    pub fn new(prop: &str, level: &str, rule: &str) -> Report {
        Report {
            ctx_prop: prop.to_string(),
            level: level.to_string(),
            rule: rule.to_string(),
            assumptions: vec![],
            violations: vec![],
            known_lines: vec![],
            notes: vec![],
        }
    }
}

pub fn write_replay(prop: &str, f: &Failure) -> PathBuf {
    let dir = verif_root().join("replays").join(prop);
    let _ = std::fs::create_dir_all(&dir);
    let body = json!({"property": prop, "check": f.check, "signature": f.sig, "detail": f.detail, "case": f.case});
    let name = format!("viol-{}.json", fingerprint(&json!({"c": f.check, "case": f.case})));
    let path = dir.join(name);
    let _ = std::fs::write(&path, serde_json::to_string_pretty(&body).unwrap());
    path
}

/// A finding's `signature` is a list of alternative prefixes separated by '|' (one defect, several observable symptoms).
pub fn sig_matches(sig: &str, pattern: &str) -> bool {
    pattern.split('|').any(|p| !p.is_empty() && sig.starts_with(p))
}

/// Run the replay inputs of known findings. `run` executes one saved case.
pub fn replay_known(
    ctx: &Ctx,
    stats: &Mutex<Stats>,
    report: &mut Report,
    run: &dyn Fn(&str, &Value) -> Verdict,
) {
    for k in ctx.findings() {
        if k.replay.is_empty() {
            continue;
        }
        let path = verif_root().join(&k.replay);
        let Ok(text) = std::fs::read_to_string(&path) else {
            report.notes.push(format!("known finding {}: replay file {} missing", k.id, k.replay));
            continue;
        };
        let Ok(v) = serde_json::from_str::<Value>(&text) else {
            report.notes.push(format!("known finding {}: replay file unparseable", k.id));
            continue;
        };
        let check = v["check"].as_str().unwrap_or("").to_string();
        let verdict = run(&check, &v["case"]);
        {
            let mut st = stats.lock().unwrap();
            st.evaluations += 1;
            st.replayed += 1;
        }
        match (&k.status[..], verdict) {
            ("open", Verdict::Fail { sig, detail }) => {
                if k.signature.is_empty() || sig_matches(&sig, &k.signature) {
                    report.known_lines.push(format!("KNOWN-FINDING: property={} {} [{}]", ctx.prop, k.what, k.id));
                } else if let Some(other) = ctx.findings().iter().find(|o| o.status == "open" && !o.signature.is_empty() && sig_matches(&sig, &o.signature)) {
                    // the saved input of this finding failed with the signature of ANOTHER listed finding of the property
                    // (replays of race- or crash-dependent findings are not deterministic): still a listed finding
                    let line = format!("KNOWN-FINDING: property={} {} [{}]", ctx.prop, other.what, other.id);
                    if !report.known_lines.contains(&line) {
                        report.known_lines.push(line);
                    }
                    report.notes.push(format!("replay of known finding {} failed with the signature of known finding {}", k.id, other.id));
                } else {
                    report.violations.push(Failure { check, sig, detail, case: v["case"].clone() });
                }
            }
            ("open", _) => {
                report.notes.push(format!("known finding {} no longer reproduces on this tree", k.id));
            }
            (_, Verdict::Fail { sig, detail }) => {
                // fixed entry: suppresses nothing
                report.violations.push(Failure { check, sig, detail, case: v["case"].clone() });
            }
            _ => {}
        }
    }
}

/// Regression tier: replay every saved file under replays/<prop>/regress-*.json (must pass).
pub fn replay_regressions(
    ctx: &Ctx,
    stats: &Mutex<Stats>,
    report: &mut Report,
    run: &dyn Fn(&str, &Value) -> Verdict,
) {
    let dir = verif_root().join("replays").join(&ctx.prop);
    let Ok(rd) = std::fs::read_dir(&dir) else { return };
    let mut files: Vec<_> = rd.flatten().map(|e| e.path()).collect();
    files.sort();
    for p in files {
        let name = p.file_name().unwrap().to_string_lossy().to_string();
        if !name.starts_with("regress-") {
            continue;
        }
        let Ok(text) = std::fs::read_to_string(&p) else { continue };
        let Ok(v) = serde_json::from_str::<Value>(&text) else { continue };
        let check = v["check"].as_str().unwrap_or("").to_string();
        let verdict = run(&check, &v["case"]);
        {
            let mut st = stats.lock().unwrap();
            st.evaluations += 1;
            st.replayed += 1;
        }
        if let Verdict::Fail { sig, detail } = verdict {
            report.violations.push(Failure { check, sig, detail, case: v["case"].clone() });
        }
    }
}

/// Write the evidence file, print the lines, return the exit code.
pub fn finish(ctx: &Ctx, stats: Stats, report: Report) -> i32 {
    let wall = ctx.t0.elapsed().as_secs_f64();
    let mut coverage = Map::new();
    coverage.insert("evaluations".into(), json!(stats.evaluations));
    coverage.insert("distinct_nontrivial".into(), json!(stats.nontrivial.len()));
    coverage.insert("rule".into(), json!(report.rule));
    coverage.insert("samples".into(), json!(stats.samples));
    coverage.insert("sub_evaluations".into(), json!(stats.sub_evals));
    coverage.insert("labels".into(), json!(stats.labels));
    coverage.insert("discards".into(), json!(stats.discards));
    coverage.insert("excluded_known".into(), json!(stats.excluded_known));
    coverage.insert("replayed_inputs".into(), json!(stats.replayed));
    coverage.insert("inconclusive".into(), json!(stats.inconclusive));
    coverage.insert("known_findings_reported".into(), json!(report.known_lines));
    coverage.insert("notes".into(), json!(report.notes));
    if let Some(e) = stats.exhaustive {
        coverage.insert("exhaustive".into(), json!(e));
    }
    for (k, v) in stats.extra {
        coverage.insert(k, v);
    }
    let ev = json!({
        "property_id": ctx.prop,
        "tier": ctx.tier.name(),
        "seed": ctx.seed,
        "level": report.level,
        "coverage": Value::Object(coverage),
        "assumptions": report.assumptions,
        "wall_s": wall,
        "violations": report.violations.len(),
    });
    let evdir = verif_root().join("evidence");
    let _ = std::fs::create_dir_all(&evdir);
    let _ = std::fs::write(
        evdir.join(format!("{}.json", ctx.prop)),
        serde_json::to_string_pretty(&ev).unwrap(),
    );
    for l in &report.known_lines {
        println!("{}", l);
    }
    for n in &report.notes {
        println!("NOTE: {}", n);
    }
    let mut code = 0;
    for f in &report.violations {
        let p = write_replay(&ctx.prop, f);
        println!("VIOLATION property={} replay={}", ctx.prop, p.display());
        println!("  check={} signature={}", f.check, f.sig);
        let d = f.detail.to_string();
        println!("  detail={}", if d.len() > 1500 { format!("{}...", &d[..1500]) } else { d });
        code = 1;
    }
    println!(
        "{} tier={} seed={} evaluations={} sub_evaluations={} distinct_nontrivial={} discards={} excluded_known={} violations={} wall_s={:.1}",
        ctx.prop,
        ctx.tier.name(),
        ctx.seed,
        ev["coverage"]["evaluations"],
        ev["coverage"]["sub_evaluations"],
        ev["coverage"]["distinct_nontrivial"],
        ev["coverage"]["discards"],
        ev["coverage"]["excluded_known"],
        report.violations.len(),
        wall
    );
    if code == 0 {
        // cases that hit the watchdog (or could not start) are not evaluated; they make the run
        // inconclusive only when they are more than a small share of it
        let inc = ev["coverage"]["inconclusive"].as_array().map(|a| a.len()).unwrap_or(0) as u64;
        if inc > 0 {
            println!("NOTE: {} case(s) not evaluated (watchdog / start failure): {}", inc, ev["coverage"]["inconclusive"]);
        }
        if inc * 20 > ev["coverage"]["evaluations"].as_u64().unwrap_or(0).max(1) {
            println!("INCONCLUSIVE: more than 5% of the cases could not be evaluated");
            return 2;
        }
        if ev["coverage"]["distinct_nontrivial"].as_u64().unwrap_or(0) < 2 {
            println!("HEALTH-GATE: fewer than 2 distinct non-trivial cases");
            return 2;
        }
    }
    code
}
