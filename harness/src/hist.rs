//! Shared case vocabulary: schemas, events, history ops, reference model, interpreter.

use crate::db::{CaseDir, Db, DbConfig, DbError, Resp};
use proptest::prelude::*;
use serde::{Deserialize, Serialize};
use serde_json::{Map, Value, json};
use std::hash::{Hash, Hasher};

/// tag range reserved for the payload field `k` (below 2^53, above any generated time / counter value)
pub const K_BASE: i64 = 7_700_000_000_000_000;

#[derive(Clone, Debug, Serialize, Deserialize, PartialEq)]
pub enum FT {
    Int,
    U64,
    Float,
    Str,
    Bool,
    Enum(Vec<String>),
    Datetime,
    Date,
}

#[derive(Clone, Debug, Serialize, Deserialize, PartialEq)]
pub struct FieldDef {
    pub name: String,
    pub ty: FT,
    pub opt: bool,
    /// primitive alias used in DEFINE ("int", "integer", "i64", ...)
    pub alias: String,
}

#[derive(Clone, Debug, Serialize, Deserialize, PartialEq)]
pub struct TypeDef {
    pub name: String,
    /// payload fields besides the implicit tag field `k: int`
    pub fields: Vec<FieldDef>,
}

impl TypeDef {
    pub fn define_cmd(&self) -> String {
        let mut parts = vec!["\"k\": \"int\"".to_string()];
        for f in &self.fields {
            let spec = match &f.ty {
                FT::Enum(vs) => format!("[{}]", vs.iter().map(|v| format!("\"{}\"", v)).collect::<Vec<_>>().join(", ")),
                _ => {
                    if f.opt && f.alias.starts_with("null | ") {
                        // the union spelled with null first (the alias carries the whole spelling)
                        format!("\"{}\"", f.alias)
                    } else if f.opt {
                        format!("\"{} | null\"", f.alias)
                    } else {
                        format!("\"{}\"", f.alias)
                    }
                }
            };
            parts.push(format!("\"{}\": {}", f.name, spec));
        }
        format!("DEFINE {} FIELDS {{ {} }}", self.name, parts.join(", "))
    }
    pub fn field(&self, name: &str) -> Option<&FieldDef> {
        self.fields.iter().find(|f| f.name == name)
    }
}

pub fn aliases(ty: &FT) -> &'static [&'static str] {
    match ty {
        FT::Int => &["int", "i64", "int64", "integer"],
        FT::U64 => &["u64", "uint64"],
        FT::Float => &["float", "f64", "double", "number"],
        FT::Str => &["string", "str", "text", "varchar"],
        FT::Bool => &["bool", "boolean"],
        FT::Datetime => &["datetime", "timestamp"],
        FT::Date => &["date"],
        FT::Enum(_) => &["enum"],
    }
}

/// One generated event: values aligned with `TypeDef.fields` (Null = absent/null for optional fields).
#[derive(Clone, Debug, Serialize, Deserialize, PartialEq)]
pub struct Ev {
    pub ty: usize,
    pub ctx: usize,
    pub vals: Vec<Value>,
}

#[derive(Clone, Debug, Serialize, Deserialize, PartialEq)]
pub enum Op {
    Store(Ev),
    /// set the store clock (seconds offset from the case base, non-decreasing)
    Clock(u32),
    Flush,
    Barrier,
    /// up to n compaction rounds on every shard
    Compact(u8),
    /// clean shutdown + new process
    Restart,
    /// observation point
    Check,
}

/// reference-model event
#[derive(Clone, Debug, Serialize, Deserialize)]
pub struct MEv {
    pub seq: usize,
    pub k: i64,
    pub ty: usize,
    pub ctx: String,
    /// expected values as they must read back (time fields normalised to epoch seconds)
    pub vals: Vec<Value>,
    pub secs: Option<u64>,
    pub shard: usize,
}

#[derive(Default, Clone, Debug)]
pub struct Model {
    pub events: Vec<MEv>,
}

pub fn shard_of(ctx: &str, n: usize) -> usize {
    let mut h = std::collections::hash_map::DefaultHasher::new();
    ctx.hash(&mut h);
    (h.finish() as usize) % n
}

pub fn ctx_name(i: usize) -> String {
    format!("c{}", i)
}

/// Independent normalisation of a time payload value to epoch seconds (documented rule:
/// ISO-8601 strings with offset, YYYY-MM-DD, integer epochs in s/ms/us/ns by digit count).
pub fn norm_time(v: &Value) -> Option<i64> {
    match v {
        Value::String(s) => {
            if let Ok(dt) = chrono::DateTime::parse_from_rfc3339(s.trim()) {
                return Some(dt.timestamp());
            }
            if let Ok(d) = chrono::NaiveDate::parse_from_str(s.trim(), "%Y-%m-%d") {
                return Some(d.and_hms_opt(0, 0, 0)?.and_utc().timestamp());
            }
            None
        }
        Value::Number(n) => {
            if let Some(i) = n.as_i64() {
                let digits = i.unsigned_abs().to_string().len();
                let d: i64 = match digits {
                    0..=11 => 1,
                    12..=14 => 1_000,
                    15..=16 => 1_000_000,
                    _ => 1_000_000_000,
                };
                Some(i / d)
            } else {
                n.as_f64().map(|f| f.floor() as i64)
            }
        }
        _ => None,
    }
}

pub fn payload_json(td: &TypeDef, k: i64, ev: &Ev, seq: usize) -> Map<String, Value> {
    let mut m = Map::new();
    m.insert("k".into(), json!(k));
    for (f, v) in td.fields.iter().zip(ev.vals.iter()) {
        if v.is_null() {
            // optional: explicit null on even seq, absent on odd seq
            if seq % 2 == 0 {
                m.insert(f.name.clone(), Value::Null);
            }
        } else {
            m.insert(f.name.clone(), v.clone());
        }
    }
    m
}

pub fn expected_vals(td: &TypeDef, ev: &Ev) -> Vec<Value> {
    td.fields
        .iter()
        .zip(ev.vals.iter())
        .map(|(f, v)| match f.ty {
            FT::Datetime | FT::Date if !v.is_null() => norm_time(v).map(|s| json!(s)).unwrap_or(Value::Null),
            _ => v.clone(),
        })
        .collect()
}

pub fn quote_ctx(ctx: &str) -> String {
    let simple = !ctx.is_empty()
        && ctx.chars().next().map(|c| c.is_ascii_alphabetic() || c == '_').unwrap_or(false)
        && ctx.chars().all(|c| c.is_ascii_alphanumeric() || c == '_' || c == '-');
    if simple { ctx.to_string() } else { format!("\"{}\"", ctx) }
}

pub fn store_cmd(td: &TypeDef, ctx: &str, payload: &Map<String, Value>) -> String {
    format!("STORE {} FOR {} PAYLOAD {}", td.name, quote_ctx(ctx), Value::Object(payload.clone()))
}

#[derive(Debug)]
pub enum Problem {
    Db(DbError),
    /// the engine answered something the history interpreter cannot continue from
    Unexpected(String),
}

impl From<DbError> for Problem {
    fn from(e: DbError) -> Self {
        Problem::Db(e)
    }
}

/// A running case: directories, current worker, model, layout bookkeeping.
pub struct World {
    pub case: CaseDir,
    pub cfg: DbConfig,
    pub types: Vec<TypeDef>,
    pub db: Db,
    pub model: Model,
    pub base_secs: u64,
    pub clock: Option<u64>,
    /// per shard: events inserted since the last rotation (model of the active memtable)
    pub mem_count: Vec<usize>,
    pub flushes: usize,
    pub auto_rotations: usize,
    pub compactions_planned: usize,
    pub restarts: usize,
    pub use_clock: bool,
    pub compaction_errors: Vec<String>,
    /// labels retired by compaction in this process lifetime, per shard
    pub retired: Vec<std::collections::BTreeSet<String>>,
    pub last_live: Vec<std::collections::BTreeSet<String>>,
    /// a label retired earlier in this lifetime was created again (process-global caches may be stale)
    pub id_reused: bool,
    /// sequence number of the next generated event (tags are K_BASE + seq, never reused)
    pub next_seq: usize,
}

impl World {
    pub fn start(tag: &str, cfg: &DbConfig, types: &[TypeDef], use_clock: bool) -> Result<World, Problem> {
        let case = CaseDir::new(tag);
        let db = Db::open(&case.path, cfg)?;
        let now = std::time::SystemTime::now().duration_since(std::time::UNIX_EPOCH).unwrap().as_secs();
        // fake clock stays <= real now (see DESIGN 2.2): base = now - 1h, rounded to the hour
        let base_secs = ((now - 3600) / 3600) * 3600;
        let mut w = World {
            case,
            cfg: cfg.clone(),
            types: types.to_vec(),
            db,
            model: Model::default(),
            base_secs,
            clock: None,
            mem_count: vec![0; cfg.shard_count],
            flushes: 0,
            auto_rotations: 0,
            compactions_planned: 0,
            restarts: 0,
            use_clock,
            compaction_errors: vec![],
            retired: vec![Default::default(); cfg.shard_count],
            last_live: vec![Default::default(); cfg.shard_count],
            id_reused: false,
            next_seq: 0,
        };
        if use_clock {
            w.db.set_clock_secs(base_secs)?;
            w.clock = Some(base_secs);
        }
        for t in types {
            let r = w.db.cmd(&t.define_cmd())?;
            if !r.ok() {
                return Err(Problem::Unexpected(format!("DEFINE rejected: {} -> {} {}", t.define_cmd(), r.status, r.message)));
            }
        }
        Ok(w)
    }

    /// Build the model event and the command line for a generated event (nothing is sent).
    pub fn prepare(&self, ev: &Ev) -> (MEv, String) {
        let td = &self.types[ev.ty];
        let seq = self.next_seq;
        let k = K_BASE + seq as i64;
        let ctx = ctx_name(ev.ctx);
        let payload = payload_json(td, k, ev, seq);
        let cmd = store_cmd(td, &ctx, &payload);
        let shard = shard_of(&ctx, self.cfg.shard_count);
        (MEv { seq, k, ty: ev.ty, ctx, vals: expected_vals(td, ev), secs: self.clock, shard }, cmd)
    }

    /// Record an event as applied in the model (after its STORE was acknowledged).
    pub fn commit(&mut self, m: MEv) {
        let shard = m.shard;
        self.model.events.push(m);
        self.mem_count[shard] += 1;
        if self.mem_count[shard] >= self.cfg.capacity() {
            self.mem_count[shard] = 0;
            self.auto_rotations += 1;
        }
    }

    pub fn store(&mut self, ev: &Ev) -> Result<Resp, Problem> {
        let (m, cmd) = self.prepare(ev);
        self.next_seq += 1;
        let r = self.db.cmd(&cmd)?;
        if !r.ok() {
            return Err(Problem::Unexpected(format!(
                "conforming STORE rejected: {} -> {} {} {:?}",
                cmd, r.status, r.message, r.parse_error
            )));
        }
        self.commit(m);
        Ok(r)
    }

    pub fn apply(&mut self, op: &Op) -> Result<(), Problem> {
        match op {
            Op::Store(ev) => {
                self.store(ev)?;
            }
            Op::Clock(off) => {
                if self.use_clock {
                    let t = self.base_secs + *off as u64;
                    let t = t.max(self.clock.unwrap_or(0));
                    self.db.set_clock_secs(t)?;
                    self.clock = Some(t);
                }
            }
            Op::Flush => {
                let r = self.db.cmd("FLUSH")?;
                if !r.ok() {
                    return Err(Problem::Unexpected(format!("FLUSH failed: {} {}", r.status, r.message)));
                }
                self.flushes += 1;
                for m in self.mem_count.iter_mut() {
                    *m = 0;
                }
            }
            Op::Barrier => self.db.barrier()?,
            Op::Compact(rounds) => {
                self.db.barrier()?;
                for s in 0..self.cfg.shard_count {
                    self.track_live(s)?;
                }
                for _ in 0..*rounds {
                    let mut any = false;
                    for s in 0..self.cfg.shard_count {
                        let v = self.db.compact(s)?;
                        if let Some(e) = v["error"].as_str() {
                            // a failed compaction run is not a failure of the history: C05 says the
                            // previous answers still hold; it is recorded and judged by C05
                            self.compaction_errors.push(format!("error: {}", e));
                            continue;
                        }
                        if v.get("panic").is_some() {
                            self.compaction_errors.push(format!("panic: {}", v));
                            self.db.panics.clear();
                            continue;
                        }
                        if v["planned"].as_bool() == Some(true) {
                            any = true;
                            self.compactions_planned += 1;
                        }
                        self.track_live(s)?;
                    }
                    if !any {
                        break;
                    }
                }
            }
            Op::Restart => {
                self.db.barrier()?;
                let v = self.db.shutdown()?;
                if v["ok"].as_bool() != Some(true) {
                    return Err(Problem::Unexpected(format!("shutdown reported errors: {}", v)));
                }
                self.reopen()?;
                for m in self.mem_count.iter_mut() {
                    *m = 0;
                }
                for r in self.retired.iter_mut() {
                    r.clear();
                }
                for r in self.last_live.iter_mut() {
                    r.clear();
                }
                self.restarts += 1;
            }
            Op::Check => {}
        }
        Ok(())
    }

    fn track_live(&mut self, shard: usize) -> Result<(), Problem> {
        let now: std::collections::BTreeSet<String> = self.db.live(shard)?.into_iter().collect();
        for gone in self.last_live[shard].difference(&now) {
            self.retired[shard].insert(gone.clone());
        }
        for new in now.difference(&self.last_live[shard]) {
            if self.retired[shard].contains(new) {
                self.id_reused = true;
            }
        }
        self.last_live[shard] = now;
        Ok(())
    }

    pub fn reopen(&mut self) -> Result<(), Problem> {
        let mut env: Vec<(&str, String)> = vec![];
        if let Some(c) = self.clock {
            env.push(("VCHECK_CLOCK_SECS", c.to_string()));
        }
        let panics = std::mem::take(&mut self.db.panics);
        let log = std::mem::take(&mut self.db.log);
        self.db = Db::open_env(&self.case.path, &self.cfg, &env)?;
        self.db.panics = panics;
        self.db.log = log;
        Ok(())
    }

    /// Layout labels from the on-disk segment directories and the memtable model.
    pub fn layout_labels(&mut self) -> Vec<String> {
        let mut out = vec![];
        let mut levels = std::collections::BTreeSet::new();
        for s in 0..self.cfg.shard_count {
            if let Ok(l) = self.db.live(s) {
                for id in l {
                    if let Ok(n) = id.parse::<u32>() {
                        levels.insert(n / 10_000);
                    }
                }
            }
        }
        for l in levels {
            out.push(format!("layout:l{}", l.min(3)));
        }
        if self.mem_count.iter().any(|c| *c > 0) {
            out.push("layout:mem".into());
        }
        if self.restarts > 0 {
            out.push("layout:restarted".into());
        }
        out
    }

    pub fn has_segments(&mut self) -> bool {
        for s in 0..self.cfg.shard_count {
            if let Ok(l) = self.db.live(s) {
                if !l.is_empty() {
                    return true;
                }
            }
        }
        false
    }
}

/// Extract the tag value k from a row (found anywhere in the row, see DESIGN 2.4).
pub fn row_k(row: &[Value]) -> Option<i64> {
    for v in row {
        if let Some(i) = v.as_i64() {
            if i >= K_BASE && i < K_BASE + 10_000_000 {
                return Some(i);
            }
        }
    }
    None
}

pub fn ks_of(r: &Resp) -> Vec<i64> {
    r.rows.iter().filter_map(|row| row_k(row)).collect()
}

// ------------------------------------------------------------------ generators

pub fn cfg_strategy(max_shards: usize) -> impl Strategy<Value = DbConfig> + Clone {
    (
        1..=max_shards,
        1usize..=6,
        1usize..=3,
        2usize..=4,
        prop::sample::select(vec![0usize, 1, 3, 1000]),
    )
        .prop_map(|(shards, epz, ff, spm, sbs)| DbConfig {
            shard_count: shards,
            event_per_zone: epz,
            fill_factor: ff,
            segments_per_merge: spm,
            streaming_batch_size: sbs,
            ..DbConfig::default()
        })
}

pub fn field_type_strategy() -> impl Strategy<Value = FT> + Clone {
    prop_oneof![
        3 => Just(FT::Int),
        1 => Just(FT::U64),
        2 => Just(FT::Float),
        3 => Just(FT::Str),
        1 => Just(FT::Bool),
        2 => (2usize..=4).prop_map(|n| FT::Enum((0..n).map(|i| format!("v{}", i)).collect())),
        1 => Just(FT::Datetime),
    ]
}

pub fn typedef_strategy(name: &'static str, min_fields: usize, max_fields: usize) -> impl Strategy<Value = TypeDef> + Clone {
    prop::collection::vec((field_type_strategy(), any::<bool>(), 0usize..4), min_fields..=max_fields).prop_map(
        move |fs| TypeDef {
            name: name.to_string(),
            fields: fs
                .into_iter()
                .enumerate()
                .map(|(i, (ty, opt, al))| {
                    let als = aliases(&ty);
                    let alias = als[al % als.len()].to_string();
                    let opt = opt && !matches!(ty, FT::Enum(_)) && i % 3 == 2;
                    FieldDef { name: format!("f{}", i), ty, opt, alias }
                })
                .collect(),
        },
    )
}

/// small colliding value domain per type (so that zones mix matching / non-matching rows)
pub fn small_value(ty: &FT, opt: bool) -> BoxedStrategy<Value> {
    let base: BoxedStrategy<Value> = match ty {
        FT::Int => prop_oneof![
            6 => (-3i64..=6).prop_map(|v| json!(v)),
            1 => prop::sample::select(vec![i64::MIN, i64::MAX, -1_000_000_007, 4_000_000_000]).prop_map(|v| json!(v)),
        ]
        .boxed(),
        FT::U64 => prop_oneof![
            6 => (0u64..=6).prop_map(|v| json!(v)),
            1 => prop::sample::select(vec![u64::MAX, i64::MAX as u64, i64::MAX as u64 + 1, 4_000_000_000]).prop_map(|v| json!(v)),
        ]
        .boxed(),
        FT::Float => prop::sample::select(vec![-2.5f64, -0.5, 0.0, 0.5, 1.0, 1.5, 2.0, 2.5, 3.0, 1e10, -1e-3])
            .prop_map(|v| json!(v))
            .boxed(),
        FT::Str => prop::sample::select(vec!["", "a", "aa", "ab", "b", "B", "10", "9", "true", "null", "é", "a b"])
            .prop_map(|v| json!(v))
            .boxed(),
        FT::Bool => any::<bool>().prop_map(|v| json!(v)).boxed(),
        FT::Enum(vs) => prop::sample::select(vs.clone()).prop_map(|v| json!(v)).boxed(),
        FT::Datetime | FT::Date => (0i64..6).prop_map(|d| json!(1_700_000_000i64 + d * 1800)).boxed(),
    };
    if opt {
        prop_oneof![3 => base, 1 => Just(Value::Null)].boxed()
    } else {
        base
    }
}

pub fn ev_strategy(types: &[TypeDef], n_ctx: usize) -> BoxedStrategy<Ev> {
    let types = types.to_vec();
    let nt = types.len();
    (0..nt, 0..n_ctx)
        .prop_flat_map(move |(ty, ctx)| {
            let fields = types[ty].fields.clone();
            let vals: Vec<BoxedStrategy<Value>> = fields.iter().map(|f| small_value(&f.ty, f.opt)).collect();
            vals.prop_map(move |vals| Ev { ty, ctx, vals })
        })
        .boxed()
}

/// ops: stores interleaved with layout-changing operations and Check points
pub fn ops_strategy(types: &[TypeDef], n_ctx: usize, max_ops: usize, with_restart: bool) -> BoxedStrategy<Vec<Op>> {
    let ev = ev_strategy(types, n_ctx);
    let op = prop_oneof![
        30 => ev.prop_map(Op::Store),
        2 => Just(Op::Flush),
        2 => Just(Op::Barrier),
        2 => (1u8..=3).prop_map(Op::Compact),
        1 => if with_restart { Just(Op::Restart) } else { Just(Op::Barrier) },
        3 => Just(Op::Check),
    ];
    prop::collection::vec(op, 4..=max_ops).boxed()
}

/// `prop::option::weighted` that also accepts probability 0 (always None)
pub fn opt_w<S: Strategy + 'static>(p: f64, s: S) -> BoxedStrategy<Option<S::Value>>
where
    S::Value: Clone + std::fmt::Debug + 'static,
{
    if p <= 0.0 { Just(None).boxed() } else { prop::option::weighted(p, s).boxed() }
}
