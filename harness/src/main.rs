mod db;
mod fw;
mod hist;
mod internal;
mod jsonx;
mod props;
mod query;
mod script;
mod worker;

use fw::{Ctx, Tier, Verdict};

fn arg_val(args: &[String], name: &str) -> Option<String> {
    args.iter().position(|a| a == name).and_then(|i| args.get(i + 1).cloned())
}

fn replay_fn(prop: &str) -> Option<fn(&str, &serde_json::Value) -> Verdict> {
    match prop {
        "C01" => Some(props::c01::replay),
        "C02" => Some(props::c02::replay),
        "C08" => Some(props::c08::replay),
        "C09" => Some(props::c09::replay),
        "C10" => Some(props::c10::replay),
        "C11" => Some(props::c11::replay),
        "C12" => Some(props::c12::replay),
        "C13" => Some(props::c13::replay),
        "C14" => Some(props::c14::replay),
        "C15" => Some(props::c15::replay),
        "C16" => Some(props::c16::replay),
        "C17" => Some(props::c17::replay),
        "C18" => Some(props::c18::replay),
        "C19" => Some(props::c19::replay),
        "C20" => Some(props::c20::replay),
        "C03" => Some(props::c03::replay),
        "C04" => Some(props::c04::replay),
        "C05" => Some(props::c05::replay),
        "C06" => Some(props::c06::replay),
        "C07" => Some(props::c07::replay),
        _ => None,
    }
}

fn main() {
    let args: Vec<String> = std::env::args().collect();
    let role = args.get(1).map(|s| s.as_str()).unwrap_or("");
    match role {
        "worker" => worker::worker_main(),
        "script" => {
            let code = script::run_script_file(args.get(2).expect("script file"));
            std::process::exit(code);
        }
        "check" => {
            let prop = args.get(2).expect("property id").to_string();
            let tier = match arg_val(&args, "--tier").or_else(|| std::env::var("VERIF_TIER").ok()).as_deref() {
                Some("thorough") => Tier::Thorough,
                _ => Tier::Quick,
            };
            let seed: u64 = arg_val(&args, "--seed")
                .or_else(|| std::env::var("VERIF_SEED").ok())
                .and_then(|s| s.parse().ok())
                .unwrap_or(1);
            if let Some(file) = arg_val(&args, "--replay") {
                std::process::exit(do_replay(&prop, &file));
            }
            let ctx = Ctx::new(&prop, tier, seed);
            let code = match prop.as_str() {
                "C01" => props::c01::run(&ctx),
                "C02" => props::c02::run(&ctx),
                "C08" => props::c08::run(&ctx),
                "C09" => props::c09::run(&ctx),
                "C10" => props::c10::run(&ctx),
                "C11" => props::c11::run(&ctx),
                "C12" => props::c12::run(&ctx),
                "C13" => props::c13::run(&ctx),
                "C14" => props::c14::run(&ctx),
                "C15" => props::c15::run(&ctx),
                "C16" => props::c16::run(&ctx),
                "C17" => props::c17::run(&ctx),
                "C18" => props::c18::run(&ctx),
                "C19" => props::c19::run(&ctx),
                "C20" => props::c20::run(&ctx),
                "C03" => props::c03::run(&ctx),
                "C04" => props::c04::run(&ctx),
                "C05" => props::c05::run(&ctx),
                "C06" => props::c06::run(&ctx),
                "C07" => props::c07::run(&ctx),
                _ => {
                    eprintln!("unknown property {}", prop);
                    2
                }
            };
            std::process::exit(code);
        }
        "mk-known" => {
            // write replays/<prop>/known-<id>.json for the hand-built known-finding inputs
            let prop = args.get(2).expect("property id").to_string();
            let regress = args.iter().any(|a| a == "--regress");
            let prefix = if regress { "regress" } else { "known" };
            let cases: Vec<(&'static str, &'static str, serde_json::Value)> = match (prop.as_str(), regress) {
                ("C02", false) => props::c02::known_cases(),
                ("C02", true) => props::c02::regress_cases(),
                ("C07", true) => props::c07::regress_cases(),
                _ => vec![],
            };
            let f = replay_fn(&prop).expect("replay fn");
            let dir = fw::verif_root().join("replays").join(&prop);
            std::fs::create_dir_all(&dir).unwrap();
            for (id, check, case) in cases {
                let v = f(check, &case);
                let (sig, detail) = match &v {
                    Verdict::Fail { sig, detail } => (sig.clone(), detail.clone()),
                    Verdict::Pass => ("PASS".to_string(), serde_json::Value::Null),
                    Verdict::Discard(r) => (format!("DISCARD {}", r), serde_json::Value::Null),
                };
                let body = serde_json::json!({"property": prop, "check": check, "signature": sig, "detail": detail, "case": case});
                let path = dir.join(format!("{}-{}.json", prefix, id));
                std::fs::write(&path, serde_json::to_string_pretty(&body).unwrap()).unwrap();
                println!("{} -> {} ({})", id, sig, path.display());
            }
        }
        "c03-table" => {
            props::c03::RACING_OK.store(false, std::sync::atomic::Ordering::Relaxed);
            for (step, nth, v) in props::c03::enumerate_steps(true) {
                let s = match v {
                    Verdict::Pass => "pass".to_string(),
                    Verdict::Fail { sig, .. } => format!("FAIL {}", sig),
                    Verdict::Discard(r) => format!("discard {}", r),
                };
                println!("{:24} nth={} {}", step, nth, s);
            }
        }
        "replay" => {
            let prop = args.get(2).expect("property id").to_string();
            let file = args.get(3).expect("replay file").to_string();
            std::process::exit(do_replay(&prop, &file));
        }
        _ => {
            eprintln!("usage: vcheck worker | script <file> | check <Cxx> [--tier quick|thorough] [--seed N] [--replay file] | replay <Cxx> <file>");
            std::process::exit(2);
        }
    }
}

fn do_replay(prop: &str, file: &str) -> i32 {
    let Some(f) = replay_fn(prop) else {
        eprintln!("no replay for {}", prop);
        return 2;
    };
    let text = std::fs::read_to_string(file).expect("read replay file");
    let v: serde_json::Value = serde_json::from_str(&text).expect("parse replay file");
    let check = v["check"].as_str().unwrap_or("");
    match f(check, &v["case"]) {
        Verdict::Pass => {
            println!("replay: property {} held on {}", prop, file);
            0
        }
        Verdict::Discard(r) => {
            println!("replay: inconclusive ({})", r);
            2
        }
        Verdict::Fail { sig, detail } => {
            println!("VIOLATION property={} replay={}", prop, file);
            println!("  signature={}", sig);
            println!("  detail={}", detail);
            1
        }
    }
}
