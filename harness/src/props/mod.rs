pub mod c02;
