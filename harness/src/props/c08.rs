//! C08 - pruning structures never rule out a zone that holds a matching row.
//! Real segments are built by the engine's flush and compaction code; inside the worker the
//! production planner, zone collector and each pruner are asked for candidate zones, and the
//! contents of every zone are read back through the column files (tag column k).

use crate::db::DbConfig;
use crate::fw::*;
use crate::hist::*;
use crate::props::c02::problem_verdict;
use crate::query::*;
use proptest::prelude::*;
use serde::{Deserialize, Serialize};
use serde_json::{Value, json};
use std::collections::{BTreeMap, BTreeSet};
use std::sync::Mutex;

#[derive(Clone, Debug, Serialize, Deserialize)]
pub struct Q {
    pub ctx: Option<usize>,
    /// SINCE, as an offset in seconds from the case's clock base
    pub since: Option<u32>,
    pub w: WExpr,
}

#[derive(Clone, Debug, Serialize, Deserialize)]
pub struct Case {
    pub cfg: DbConfig,
    pub td: TypeDef,
    pub ops: Vec<Op>,
    pub queries: Vec<Q>,
    #[serde(default)]
    pub excluded: u32,
}

const N_CTX: usize = 3;

fn fty(td: &TypeDef, f: &str) -> FT {
    td.field(f).map(|x| x.ty.clone()).unwrap_or(FT::Int)
}

fn is_range(op: &Cmp) -> bool {
    matches!(op, Cmp::Lt | Cmp::Lte | Cmp::Gt | Cmp::Gte)
}

/// input classes of open known findings (class name, predicate over a single comparison)
fn classes() -> Vec<(&'static str, fn(&TypeDef, &WExpr) -> bool)> {
    vec![
        ("prune.fractional_literal_on_int_col", |td, w| match w {
            WExpr::Cmp { field, op, lit: Lit::Float(f) } => is_range(op) && f.fract() != 0.0 && matches!(fty(td, field), FT::Int | FT::U64),
            _ => false,
        }),
        ("prune.range_on_float_col", |td, w| match w {
            WExpr::Cmp { field, op, .. } => is_range(op) && fty(td, field) == FT::Float,
            _ => false,
        }),
    ]
}

fn excluded_by(open: &[bool], td: &TypeDef, w: &WExpr, frac_floats: bool) -> bool {
    let cl = classes();
    // in a fractional-only case every float value and every literal on a float column sits in the float byte lane, which is
    // outside the open finding about the two lanes of a float column (class 1): range comparisons on floats are judged there
    w.any_node(&|n| cl.iter().enumerate().any(|(i, (_, p))| open[i] && !(i == 1 && frac_floats) && p(td, n)))
}

/// fractional-only image of the shared float value domain (keeps the order of magnitude, adds negative values)
fn frac_value(x: f64) -> f64 {
    if x == 2.0 {
        -3.25
    } else if x == 3.0 {
        -1.25
    } else if x == 0.0 {
        -0.75
    } else if x == 1e10 {
        7.125
    } else if x.fract() == 0.0 {
        x + 0.25
    } else {
        x
    }
}

fn frac_where(td: &TypeDef, w: &mut WExpr) {
    let fix = |l: &mut Lit| match l {
        Lit::Int(i) => *l = Lit::Float(*i as f64 - 0.4),
        Lit::Float(x) if x.fract() == 0.0 => *x -= 0.4,
        _ => {}
    };
    match w {
        WExpr::Cmp { field, lit, .. } => {
            if fty(td, field) == FT::Float {
                fix(lit)
            }
        }
        WExpr::In { field, lits } => {
            if fty(td, field) == FT::Float {
                for l in lits.iter_mut() {
                    fix(l)
                }
            }
        }
        WExpr::And(a, b) | WExpr::Or(a, b) => {
            frac_where(td, a);
            frac_where(td, b);
        }
        WExpr::Not(a) => frac_where(td, a),
    }
}

/// time values and literals of the shared generators sit on a half-hour grid from 1_700_000_000; a case
/// moves that grid onto hour / day boundaries (base, step), keeping the +1 s offsets of the literals
pub fn remap_time(v: i64, base: i64, step: i64) -> i64 {
    let d = v - 1_700_000_000;
    base + d.div_euclid(1800) * step + d.rem_euclid(1800)
}

fn remap_lit(l: &mut Lit, base: i64, step: i64) {
    match l {
        Lit::Int(i) => *i = remap_time(*i, base, step),
        Lit::Str(s) => {
            if let Ok(t) = chrono::DateTime::parse_from_rfc3339(s) {
                let n = chrono::DateTime::from_timestamp(remap_time(t.timestamp(), base, step), 0).unwrap();
                *s = n.to_rfc3339_opts(chrono::SecondsFormat::Secs, true);
            }
        }
        _ => {}
    }
}

pub fn remap_where(td: &TypeDef, w: &mut WExpr, base: i64, step: i64) {
    let is_time = |f: &str| matches!(td.field(f).map(|x| &x.ty), Some(FT::Datetime) | Some(FT::Date));
    match w {
        WExpr::Cmp { field, lit, .. } => {
            if is_time(field) {
                remap_lit(lit, base, step)
            }
        }
        WExpr::In { field, lits } => {
            if is_time(field) {
                for l in lits {
                    remap_lit(l, base, step)
                }
            }
        }
        WExpr::And(a, b) | WExpr::Or(a, b) => {
            remap_where(td, a, base, step);
            remap_where(td, b, base, step);
        }
        WExpr::Not(a) => remap_where(td, a, base, step),
    }
}

fn case_strategy(tier: Tier, open: Vec<bool>, no_big_u64: bool) -> BoxedStrategy<Case> {
    let max_ops = tier.pick(60, 110);
    (prop::sample::select(vec![1usize, 1, 2, 3]), typedef_strategy("ev", 2, 5))
        .prop_flat_map(move |(epz, td)| {
            let cfg = DbConfig { shard_count: 1, event_per_zone: epz, fill_factor: 200, segments_per_merge: 2, ..DbConfig::default() };
            let ev = ev_strategy(&[td.clone()], N_CTX);
            let op = prop_oneof![
                40 => ev.prop_map(Op::Store),
                4 => (0u32..7200).prop_map(Op::Clock),
                3 => Just(Op::Flush),
                1 => (1u8..=2).prop_map(Op::Compact),
                1 => Just(Op::Restart),
            ];
            let q = (opt_w(0.2, 0..N_CTX), opt_w(0.25, 0u32..7200), where_strategy(&td, 2)).prop_map(|(ctx, since, w)| Q { ctx, since, w });
            let leafq = leaf_strategy(&td).prop_map(|w| Q { ctx: None, since: None, w });
            // (base, step): the shared grid, around a day boundary, hour steps, day steps, three-day and month steps (a zone then
            // spans weeks or months of the time field)
            let grid = prop::sample::select(vec![(1_700_000_000i64, 1800i64), (1_699_920_000 - 1800, 1800), (1_699_999_200 - 3600, 3600), (1_699_920_000 - 86_400, 86_400), (1_699_920_000 - 3, 1), (1_699_920_000 - 3 * 86_400, 3 * 86_400), (1_699_920_000 - 86_400, 30 * 86_400)]);
            (Just(cfg), Just(td), prop::collection::vec(op, 8..=max_ops), prop::collection::vec(prop_oneof![2 => q, 3 => leafq], 4..=12), grid, any::<bool>())
        })
        .prop_map(move |(cfg, td, mut ops, mut queries, (base, step), frac_floats)| {
            let frac_floats = frac_floats && td.fields.iter().any(|f| f.ty == FT::Float);
            let mut excluded_data = 0u32;
            for op in ops.iter_mut() {
                if let Op::Store(ev) = op {
                    for (i, f) in td.fields.iter().enumerate() {
                        // open finding: u64 values above i64::MAX sit in another byte lane of the range filter
                        if no_big_u64 && f.ty == FT::U64 && ev.vals[i].as_u64().map(|v| v > i64::MAX as u64).unwrap_or(false) {
                            ev.vals[i] = json!(i64::MAX as u64);
                            excluded_data += 1;
                        }
                        if matches!(f.ty, FT::Datetime | FT::Date) {
                            if let Some(v) = ev.vals[i].as_i64() {
                                ev.vals[i] = json!(remap_time(v, base, step));
                            }
                        }
                        if frac_floats && f.ty == FT::Float {
                            if let Some(x) = ev.vals[i].as_f64() {
                                ev.vals[i] = json!(frac_value(x));
                            }
                        }
                    }
                }
            }
            for q in queries.iter_mut() {
                remap_where(&td, &mut q.w, base, step);
                if frac_floats {
                    frac_where(&td, &mut q.w);
                }
            }
            let before = queries.len();
            queries.retain(|q| !excluded_by(&open, &td, &q.w, frac_floats));
            let excluded = (before - queries.len()) as u32 + excluded_data;
            Case { cfg, td, ops, queries, excluded }
        })
        .boxed()
}

fn leaves(w: &WExpr, out: &mut Vec<WExpr>) {
    match w {
        WExpr::Cmp { .. } | WExpr::In { .. } => {
            if !out.contains(w) {
                out.push(w.clone())
            }
        }
        WExpr::And(a, b) | WExpr::Or(a, b) => {
            leaves(a, out);
            leaves(b, out);
        }
        WExpr::Not(a) => leaves(a, out),
    }
}

fn leaf_class(td: &TypeDef, w: &WExpr) -> String {
    let fty = |f: &str| match td.field(f) {
        Some(fd) => format!("{}{}", match &fd.ty { FT::Enum(_) => "Enum".to_string(), t => format!("{:?}", t) }, if fd.opt { "?" } else { "" }),
        None => "k".to_string(),
    };
    let lk = |l: &Lit| match l {
        Lit::Int(i) if *i < 0 => "neg-int",
        Lit::Int(_) => "int",
        Lit::Float(_) => "float",
        Lit::Str(_) => "str",
        Lit::Word(_) => "word",
    };
    match w {
        WExpr::Cmp { field, op, lit } => format!("{}:{}:{}", fty(field), op.sym(), lk(lit)),
        WExpr::In { field, lits } => format!("{}:IN:{}", fty(field), lits.first().map(lk).unwrap_or("none")),
        _ => "compound".into(),
    }
}

fn run_case(c: &Case, rep: &mut CaseReport) -> Verdict {
    rep.excluded_known += c.excluded as u64;
    if c.queries.is_empty() {
        return Verdict::Discard("all queries excluded".into());
    }
    let mut w = match World::start("c08", &c.cfg, &[c.td.clone()], true) {
        Ok(w) => w,
        Err(e) => {
            rep.inconclusive = Some(format!("start: {:?}", e));
            return Verdict::Discard("start failed".into());
        }
    };
    for op in &c.ops {
        if let Err(e) = w.apply(op) {
            return problem_verdict(e, &mut w, rep);
        }
    }
    if let Err(e) = w.apply(&Op::Flush).and_then(|_| w.apply(&Op::Barrier)) {
        return problem_verdict(e, &mut w, rep);
    }
    // query texts: every generated query, then every distinct leaf on its own
    let mut texts: Vec<(String, Option<usize>, Option<u64>, WExpr, bool)> = vec![];
    for q in &c.queries {
        let since = q.since.map(|o| w.base_secs + o as u64);
        let mut t = "QUERY ev".to_string();
        if let Some(cx) = q.ctx {
            t.push_str(&format!(" FOR {}", quote_ctx(&ctx_name(cx))));
        }
        if let Some(s) = since {
            let ts = chrono::DateTime::from_timestamp(s as i64, 0).unwrap();
            t.push_str(&format!(" SINCE \"{}\"", ts.to_rfc3339_opts(chrono::SecondsFormat::Secs, true)));
        }
        t.push_str(&format!(" WHERE {}", q.w.print()));
        texts.push((t, q.ctx, since, q.w.clone(), false));
    }
    // scope-only probes: without a WHERE the collector combines the zones of the event-type and context selectors (with a
    // WHERE it takes the zones of the WHERE tree and leaves the scope to the row evaluator), so the per-segment context
    // index is only exercised here. The always-true comparison is the reference's stand-in for "no WHERE".
    let all_rows = WExpr::Cmp { field: "k".into(), op: Cmp::Gte, lit: Lit::Int(crate::hist::K_BASE) };
    texts.push(("QUERY ev".to_string(), None, None, all_rows.clone(), false));
    for cx in 0..N_CTX {
        texts.push((format!("QUERY ev FOR {}", quote_ctx(&ctx_name(cx))), Some(cx), None, all_rows.clone(), false));
    }
    let mut lv = vec![];
    for q in &c.queries {
        leaves(&q.w, &mut lv);
    }
    for l in lv {
        texts.push((format!("QUERY ev WHERE {}", l.print()), None, None, l, true));
    }
    let req = json!({"op": "internal", "what": "prune", "shard": 0, "event_type": "ev", "queries": texts.iter().map(|t| t.0.clone()).collect::<Vec<_>>()});
    let out = match w.db.req(req) {
        Ok(v) => v,
        Err(e) => return problem_verdict(Problem::Db(e), &mut w, rep),
    };
    if let Some(e) = out["error"].as_str() {
        return Verdict::Discard(format!("prune op: {}", e));
    }
    // zone contents
    let layout = w.layout_labels();
    let model_events = w.model.events.clone();
    let by_k: BTreeMap<i64, &MEv> = model_events.iter().map(|m| (m.k, m)).collect();
    let mut zones: Vec<(String, u64, Vec<&MEv>)> = vec![];
    let mut seen_k = BTreeSet::new();
    for z in out["zones"].as_array().cloned().unwrap_or_default() {
        let seg = z["segment"].as_str().unwrap_or("").to_string();
        let zid = z["zone"].as_u64().unwrap_or(0);
        let mut evs = vec![];
        for k in z["ks"].as_array().cloned().unwrap_or_default() {
            if let Some(m) = k.as_i64().and_then(|k| by_k.get(&k)) {
                evs.push(*m);
                seen_k.insert(m.k);
            }
        }
        zones.push((seg, zid, evs));
    }
    if seen_k.len() != model_events.len() {
        // rows not found in any zone of a live segment: not this property's business (C01 / C05), and
        // the oracle below stays sound (it only demands zones for rows it has located)
        rep.label("zone-scan-incomplete");
    }
    let zones_per_seg: BTreeMap<String, usize> = zones.iter().fold(BTreeMap::new(), |mut m, z| {
        *m.entry(z.0.clone()).or_default() += 1;
        m
    });
    if zones_per_seg.values().any(|n| *n > 10) {
        rep.label("segment-with-more-than-10-zones");
    }
    if zones_per_seg.keys().any(|s| s.parse::<u32>().map(|n| n >= 10_000).unwrap_or(false)) {
        rep.label("compacted-segment");
    }
    let results = out["queries"].as_array().cloned().unwrap_or_default();
    let mut pruned_something = false;
    for (i, (text, ctx, since, wx, is_leaf)) in texts.iter().enumerate() {
        let r = &results[i];
        if let Some(e) = r["error"].as_str() {
            if e == "panic" {
                return Verdict::fail("panic-in-zone-selection", json!({"query": text, "panics": w.db.panics}));
            }
            rep.label(format!("query-not-planned:{}", e.chars().take(12).collect::<String>()));
            if e.starts_with("parse") {
                return Verdict::Discard(format!("generated query does not parse: {} ({})", text, e));
            }
            continue;
        }
        rep.sub_evals += 1;
        let res = &r["result"];
        let collected: BTreeSet<(String, u64)> = res["collected"].as_array().cloned().unwrap_or_default().iter().map(|p| (p[0].as_str().unwrap_or("").to_string(), p[1].as_u64().unwrap_or(0))).collect();
        let row_matches = |m: &MEv, with_scope: bool| -> bool {
            if with_scope {
                if let Some(cx) = ctx {
                    if m.ctx != ctx_name(*cx) {
                        return false;
                    }
                }
                if let Some(s) = since {
                    // strictly later rows are certain; rows of the very second are left open
                    if m.secs.map(|t| t <= *s).unwrap_or(true) {
                        return false;
                    }
                }
            }
            wx.eval(&c.td, &m.vals, m.k) == Tri::True
        };
        let class = if *is_leaf { leaf_class(&c.td, wx) } else { "compound".to_string() };
        let mut all = 0;
        for (seg, zid, evs) in &zones {
            all += 1;
            let witness = evs.iter().find(|m| row_matches(m, true));
            if let Some(m) = witness {
                if !collected.contains(&(seg.clone(), *zid)) {
                    let strategies: Vec<String> = res["filters"].as_array().cloned().unwrap_or_default().iter().map(|f| format!("{} {}", f["column"].as_str().unwrap_or(""), f["strategy"].as_str().unwrap_or(""))).collect();
                    return Verdict::fail(
                        format!("zone-missed:collector:{}", class),
                        json!({"query": text, "segment": seg, "zone": zid, "witness": {"k": m.k, "vals": m.vals, "ctx": m.ctx, "secs": m.secs}, "fields": c.td.fields, "collected": res["collected"], "strategies": strategies, "zone_rows": evs.iter().map(|m| json!({"k": m.k, "vals": m.vals})).collect::<Vec<_>>()}),
                    );
                }
            }
        }
        if collected.len() < all && !collected.is_empty() {
            pruned_something = true;
            rep.label("collector-pruned");
        }
        if *is_leaf {
            let filters = res["filters"].as_array().cloned().unwrap_or_default();
            if filters.len() != 1 {
                continue;
            }
            let f = &filters[0];
            rep.label(format!("strategy:{}", f["strategy"].as_str().unwrap_or("").split(|c| c == '{' || c == '(').nth(1).unwrap_or("none").trim()));
            for ps in f["segments"].as_array().cloned().unwrap_or_default() {
                let seg = ps["segment"].as_str().unwrap_or("").to_string();
                for name in ["surf", "zxf", "xf", "ebm", "temporal"] {
                    let Some(ids) = ps[name].as_array() else { continue };
                    let ids: BTreeSet<u64> = ids.iter().filter_map(|v| v.as_u64()).collect();
                    rep.label(format!("pruner-answered:{}", name));
                    let n_seg = zones.iter().filter(|z| z.0 == seg).count();
                    if ids.len() < n_seg {
                        pruned_something = true;
                    }
                    for (zseg, zid, evs) in &zones {
                        if *zseg != seg {
                            continue;
                        }
                        if let Some(m) = evs.iter().find(|m| row_matches(m, false)) {
                            if !ids.contains(zid) {
                                return Verdict::fail(
                                    format!("zone-missed:{}:{}", name, class),
                                    json!({"probe": wx.print(), "structure": name, "engine_value": f["value"], "engine_op": f["op"], "planned_strategy": f["strategy"], "segment": seg, "zone": zid, "reported": ids, "witness": {"k": m.k, "vals": m.vals}, "fields": c.td.fields, "zone_rows": evs.iter().map(|m| json!({"k": m.k, "vals": m.vals})).collect::<Vec<_>>()}),
                                );
                            }
                        }
                    }
                }
            }
        }
    }
    if !w.db.panics.is_empty() {
        return Verdict::fail("panic-in-worker", json!({"panics": w.db.panics}));
    }
    rep.nontrivial = pruned_something;
    for l in layout {
        rep.label(l);
    }
    rep.sample = Some(json!({"define": c.td.define_cmd(), "zones": zones.len(), "segments": zones_per_seg, "queries": texts.iter().take(4).map(|t| t.0.clone()).collect::<Vec<_>>()}));
    let _ = w.db.shutdown();
    Verdict::Pass
}

pub fn replay(_check: &str, case: &Value) -> Verdict {
    match serde_json::from_value::<Case>(case.clone()) {
        Ok(c) => run_case(&c, &mut CaseReport::default()),
        Err(e) => Verdict::Discard(format!("bad case: {}", e)),
    }
}

pub fn run(ctx: &Ctx) -> i32 {
    let stats = Mutex::new(Stats::default());
    let mut report = Report::new(
        "C08",
        "exploration",
        "generated schemas (int, u64, float, string, bool, enum, datetime, date; optional fields), value multisets from small colliding domains plus 64-bit limits, 1-3 events per zone, segments built by the engine's own flush and compaction (up to 100+ zones per segment, compacted L1 segments, restarts), and probes (=, !=, <, <=, >, >=, IN, literals of every kind incl. a different numeric kind than the column and values absent from the data, AND / OR / NOT trees, FOR context, SINCE). Inside the worker the production QueryPlan + ZoneCollector give the candidate zones of the whole query, and every structure (SuRF range filter, per-zone XOR index, per-field XOR filter, enum bitmap, calendar + per-zone temporal index) is probed on its own through its production pruner for every distinct comparison; zone contents are read back through the column files (tag column). Oracle: a zone holding a row for which the three-valued reference evaluator says TRUE must be among the candidates (superset; extra zones are allowed). Non-trivial: a case where some structure or the collector actually excluded zones.",
    );
    report.assumptions = vec!["SINCE: only rows strictly later than the bound are demanded".into(), "zones are identified by reading the tag column through the engine's column reader".into()];
    replay_known(ctx, &stats, &mut report, &replay);
    replay_regressions(ctx, &stats, &mut report, &replay);
    let cases = ctx.tier.pick(320, 4000);
    let tier = ctx.tier;
    let open: Vec<bool> = classes().iter().map(|(c, _)| ctx.open(c)).collect();
    let no_big_u64 = ctx.open("prune.u64_above_i64_max");
    if let Some(f) = explore(ctx, "prune", || case_strategy(tier, open.clone(), no_big_u64), Explore { cases, max_shrink_iters: ctx.tier.pick(120, 400), lanes: ctx.lanes }, &stats, run_case) {
        report.violations.push(f);
    }
    finish(ctx, stats.into_inner().unwrap(), report)
}
