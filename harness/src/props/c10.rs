//! C10 - ORDER BY, LIMIT and OFFSET return the right slice in the right order.

use crate::db::DbConfig;
use crate::fw::*;
use crate::hist::*;
use crate::props::c02::problem_verdict;
use crate::query::*;
use proptest::prelude::*;
use serde::{Deserialize, Serialize};
use serde_json::{Value, json};
use std::cmp::Ordering;
use std::collections::BTreeSet;
use std::sync::Mutex;

#[derive(Clone, Debug, Serialize, Deserialize)]
pub struct OQ {
    pub order: Option<(String, bool)>,
    pub limit: Option<u32>,
    pub offset: Option<u32>,
    pub wh: Option<WExpr>,
    pub ctx: Option<usize>,
    /// RETURN [k, <sort field>] instead of all fields
    pub ret: bool,
}

impl OQ {
    fn print(&self, td: &TypeDef) -> String {
        let mut s = format!("QUERY {}", td.name);
        if let Some(c) = self.ctx {
            s.push_str(&format!(" FOR {}", ctx_name(c)));
        }
        if self.ret {
            match &self.order {
                Some((f, _)) if f != "timestamp" => s.push_str(&format!(" RETURN [k, {}]", f)),
                _ => s.push_str(" RETURN [k]"),
            }
        }
        if let Some(w) = &self.wh {
            s.push_str(&format!(" WHERE {}", w.print()));
        }
        if let Some((f, desc)) = &self.order {
            s.push_str(&format!(" ORDER BY {}{}", f, if *desc { " DESC" } else { " ASC" }));
        }
        if let Some(l) = self.limit {
            s.push_str(&format!(" LIMIT {}", l));
        }
        if let Some(o) = self.offset {
            s.push_str(&format!(" OFFSET {}", o));
        }
        s
    }
}

#[derive(Clone, Debug, Serialize, Deserialize)]
pub struct Case {
    pub cfg: DbConfig,
    pub td: TypeDef,
    pub n_ctx: usize,
    pub ops: Vec<Op>,
    pub tail: Vec<Op>,
    pub queries: Vec<OQ>,
}

fn order_typedef() -> TypeDef {
    let f = |n: &str, ty: FT, opt: bool| FieldDef { name: n.into(), alias: aliases(&ty)[0].to_string(), ty, opt };
    TypeDef {
        name: "ev".into(),
        fields: vec![f("x", FT::Int, false), f("f", FT::Float, false), f("s", FT::Str, false), f("t", FT::Datetime, false), f("o", FT::Int, true), f("u", FT::U64, false)],
    }
}

#[derive(Clone, Copy)]
struct Excl {
    order_by: [bool; 7], // x f s t o u timestamp
    offset: bool,
    limit_with_order: bool,
    mixed_tiers: bool,
    where_not_returned: bool,
    /// C01's open findings (WAL files not pruned after a clean restart / after compaction + restart) store events twice;
    /// selections de-duplicate by id, but LIMIT is applied before that and then returns fewer rows than exist
    no_restart: bool,
    /// open finding: ORDER BY + LIMIT + OFFSET over several segments / shards returns a wrong slice
    ordered_offset: bool,
    /// open finding compaction.partial_drain (C05)
    no_multi_type_compaction: bool,
}

const SORT_FIELDS: [&str; 7] = ["x", "f", "s", "t", "o", "u", "timestamp"];

/// experiment switch: keep ORDER BY + LIMIT and judge it only in a sub-region (see run_case)
fn sub_region() -> bool {
    std::env::var("VCHECK_C10_SUB").is_ok()
}

fn case_strategy(tier: Tier, ex: Excl, wx: crate::props::c02::WhereExcl) -> BoxedStrategy<Case> {
    let td = order_typedef();
    (cfg_strategy(3), 2usize..=4)
        .prop_flat_map(move |(cfg, n_ctx)| {
            let td = td.clone();
            // integers beyond 2^53 in magnitude (neighbours collapse when compared as f64) and the ends of the i64 range
            let big = || prop::sample::select(vec![-9007199254740993i64, -9007199254740992, -9007199254740994, 9007199254740992, 9007199254740993, i64::MIN, i64::MIN + 1, i64::MAX, i64::MAX - 1]);
            let ev = (0..n_ctx, prop_oneof![8 => (-3i64..5).boxed(), 2 => big().boxed()], prop::sample::select(vec![-2.5f64, -0.5, 0.0, 0.25, 1.5, 2.0, 10.5]), prop::sample::select(vec!["a", "b", "B", "ab", "zz", "é"]), 0i64..6, prop::option::weighted(0.7, prop_oneof![8 => (-2i64..4).boxed(), 2 => big().boxed()]), prop::sample::select(vec![0u64, 1, 2, 3, 4_000_000_000, i64::MAX as u64]))
                .prop_map(|(ctx, x, f, s, t, o, u)| Ev { ty: 0, ctx, vals: vec![json!(x), json!(f), json!(s), json!(1_700_000_000i64 + t * 1800), o.map(|v| json!(v)).unwrap_or(Value::Null), json!(u)] });
            // (four cases in ten; the others keep one event type and their compaction rounds)
            let with_noise = cfg.shard_count >= 2 && n_ctx != 3;
            let noise = (0..n_ctx, 0i64..4).prop_map(move |(ctx, v)| if with_noise { Op::Store(Ev { ty: 1, ctx, vals: vec![json!(v)] }) } else { Op::Barrier });
            let op = prop_oneof![30 => ev.prop_map(Op::Store), 4 => noise, 3 => (0u32..5).prop_map(Op::Clock), 2 => Just(Op::Flush), 2 => Just(Op::Barrier), 2 => (1u8..=2).prop_map(Op::Compact)];
            let ops = prop::collection::vec(op, 8..=tier.pick(70, 90));
            let tail = prop::collection::vec(prop_oneof![3 => Just(Op::Flush), 2 => (1u8..=2).prop_map(Op::Compact), 2 => Just(if ex.no_restart { Op::Barrier } else { Op::Restart })], 1..=2);
            let fields: Vec<&'static str> = SORT_FIELDS.iter().enumerate().filter(|(i, _)| !ex.order_by[*i]).map(|(_, f)| *f).collect();
            let wh = where_strategy(&TypeDef { name: "ev".into(), fields: td.fields.iter().filter(|f| f.name == "x").cloned().collect() }, 1);
            let order = if fields.is_empty() { Just(None).boxed() } else { opt_w(0.8, (prop::sample::select(fields), any::<bool>()).prop_map(|(f, d)| (f.to_string(), d))) };
            let q = (order, opt_w(0.7, prop_oneof![1 => Just(0u32), 3 => Just(1u32), 3 => 2u32..6, 2 => 6u32..40, 1 => Just(1000u32)]), opt_w(if ex.offset { 0.0 } else { 0.4 }, prop_oneof![Just(0u32), Just(1), 2u32..6, 6u32..40]), opt_w(0.3, wh), opt_w(0.25, 0..n_ctx), any::<bool>())
                .prop_map(move |(order, limit, offset, wh, ctx, ret)| {
                    // open finding: the ordered top-k zone pre-selection ignores WHERE and FOR, so ORDER BY + LIMIT is only
                    // combined with them when the finding is closed (without them it is explored since fix 7e1b1f4); the string
                    // planner (text sort keys) mis-plans as well (ORDER BY s ASC LIMIT 1 returned "ab" with "B" and "a" stored)
                    let string_key = order.as_ref().map(|o| o.0 == "s").unwrap_or(false);
                    let limit = if ex.limit_with_order && order.is_some() && (wh.is_some() || ctx.is_some() || string_key) && !sub_region() { None } else { limit };
                    let ret = if ex.where_not_returned && order.is_some() && wh.is_some() { false } else { ret };
                    let offset = if ex.ordered_offset && order.is_some() && limit.is_some() { None } else { offset };
                    OQ { order, limit, offset, wh, ctx, ret }
                });
            // late arrivals: up to two events in contexts of their own, stored after everything else (so they sit in memory at
            // the first observation), each with a sort key beyond the shared value domain on one side - the top row of an
            // ordered query then lives only in a memtable, possibly of a shard whose segments hold none of the top rows
            let late = prop::collection::vec((0usize..3, any::<bool>()), 0..=2).prop_map(move |v| {
                v.into_iter()
                    .map(|(c, hi)| {
                        let (x, f, t, o, u) = if hi { (9i64, 99.5f64, 40i64, 9i64, 5_000_000_000u64) } else { (-9, -99.5, -40, -9, 0) };
                        Op::Store(Ev { ty: 0, ctx: n_ctx + c, vals: vec![json!(x), json!(f), json!("m"), json!(1_700_000_000i64 + t * 1800), json!(o), json!(u)] })
                    })
                    .collect::<Vec<Op>>()
            });
            let ops = (ops, late).prop_map(|(mut a, b)| {
                a.extend(b);
                a
            });
            (Just(cfg), Just(td), Just(n_ctx), ops, tail, prop::collection::vec(q, 6..=tier.pick(14, 24)))
        })
        .prop_map(move |(cfg, td, n_ctx, mut ops, mut tail, mut queries)| {
            // open finding (C05): compaction over segments shared by several event types leaves a type readable from input
            // and output; selections de-duplicate by id, but LIMIT is applied before that. While it is open a history with
            // the second event type does not compact.
            if ex.no_multi_type_compaction && ops.iter().any(|o| matches!(o, Op::Store(e) if e.ty == 1)) {
                for o in ops.iter_mut().chain(tail.iter_mut()) {
                    if matches!(o, Op::Compact(_)) {
                        *o = Op::Barrier;
                    }
                }
            }
            for q in queries.iter_mut() {
                if q.wh.as_ref().map(|w| wx.excluded(&td, w)).unwrap_or(false) {
                    q.wh = None;
                }
            }
            Case { cfg, td, n_ctx, ops, tail, queries }
        })
        .boxed()
}

fn cmp_keys(a: &Value, b: &Value) -> Option<Ordering> {
    match (a, b) {
        (Value::Null, Value::Null) => Some(Ordering::Equal),
        (Value::Number(_), Value::Number(_)) => {
            if let (Some(x), Some(y)) = (a.as_i64(), b.as_i64()) {
                return Some(x.cmp(&y));
            }
            if let (Some(x), Some(y)) = (a.as_u64(), b.as_u64()) {
                return Some(x.cmp(&y));
            }
            a.as_f64()?.partial_cmp(&b.as_f64()?)
        }
        (Value::String(x), Value::String(y)) => Some(x.as_bytes().cmp(y.as_bytes())),
        _ => None,
    }
}

static EXCL: Mutex<Option<Excl>> = Mutex::new(None);

fn run_case(c: &Case, rep: &mut CaseReport) -> Verdict {
    let ex = EXCL.lock().unwrap().unwrap_or(Excl { order_by: [false; 7], offset: false, limit_with_order: false, mixed_tiers: false, where_not_returned: false, no_restart: false, ordered_offset: false, no_multi_type_compaction: false });
    // a second event type is stored alongside (never queried): segments then exist that hold none of the queried type's rows
    let types = vec![c.td.clone(), TypeDef { name: "nz".into(), fields: vec![FieldDef { name: "v".into(), ty: FT::Int, opt: false, alias: "int".into() }] }];
    let mut w = match World::start("c10", &c.cfg, &types, true) {
        Ok(w) => w,
        Err(e) => {
            rep.inconclusive = Some(format!("start: {:?}", e));
            return Verdict::Discard("start failed".into());
        }
    };
    for op in &c.ops {
        if let Err(e) = w.apply(op) {
            return problem_verdict(e, &mut w, rep);
        }
    }
    let fidx = |name: &str| c.td.fields.iter().position(|f| f.name == name);
    for ci in 0..=c.tail.len() {
        if ci > 0 {
            if let Err(e) = w.apply(&c.tail[ci - 1]) {
                return problem_verdict(e, &mut w, rep);
            }
        }
        if let Err(e) = w.db.barrier() {
            return problem_verdict(Problem::Db(e), &mut w, rep);
        }
        if w.id_reused && crate::props::c02::KNOWN_ID_REUSE.load(std::sync::atomic::Ordering::Relaxed) {
            rep.excluded_known += 1;
            return Verdict::Discard("known: retired segment id re-created in the same process lifetime".into());
        }
        let layout = w.layout_labels();
        for l in &layout {
            rep.label(l.clone());
        }
        let tiers = layout.iter().filter(|l| l.starts_with("layout:l") || *l == "layout:mem").count();
        let mixed = layout.iter().any(|l| l == "layout:mem") && layout.iter().any(|l| l.starts_with("layout:l"));
        for q in &c.queries {
            if ex.mixed_tiers && mixed && q.order.is_some() {
                rep.excluded_known += 1;
                continue;
            }
            let compacted = layout.iter().any(|l| l == "layout:l1" || l == "layout:l2" || l == "layout:l3");
            // ORDER BY + LIMIT over rows in memory and segments at once, and over compacted segments, were excluded here while
            // they belonged to the open ORDER BY + LIMIT finding: a flaky wrong slice on mixed layouts (gone since the repairs
            // 00f546b / a541073 of the column order and width of the flows), and the top zone cut off over compacted
            // segments (repaired: f7501e3 ladder minimum, da069a2 straddling zones). Both layouts are judged again.
            let _ = (mixed, compacted);
            if ex.limit_with_order && q.order.is_some() && q.limit.is_some() && sub_region() {
                // experiment: ORDER BY + LIMIT is judged only without WHERE / FOR, on L0 segments and memory, before any restart
                let fields_ok = std::env::var("VCHECK_C10_SUB").map(|v| v.split(',').any(|f| f == q.order.as_ref().unwrap().0 || f == "all")).unwrap_or(false);
                let simple = q.wh.is_none() && q.ctx.is_none() && !layout.iter().any(|l| l == "layout:l1" || l == "layout:l2" || l == "layout:l3" || l == "layout:restarted") && fields_ok;
                if !simple {
                    rep.excluded_known += 1;
                    continue;
                }
                rep.label("order-by-with-limit:judged");
            }
            let text = q.print(&c.td);
            let r = match w.db.cmd(&text) {
                Ok(r) => r,
                Err(e) => return problem_verdict(Problem::Db(e), &mut w, rep),
            };
            rep.sub_evals += 1;
            if !r.panics.is_empty() {
                return Verdict::fail("panic", json!({"cmd": text, "panics": r.panics, "log": w.db.log}));
            }
            // matching events in the model
            let matching: Vec<&MEv> = w
                .model
                .events
                .iter()
                .filter(|e| e.ty == 0 && q.ctx.map(|cx| e.ctx == ctx_name(cx)).unwrap_or(true) && q.wh.as_ref().map(|wh| wh.eval(&c.td, &e.vals, e.k) == Tri::True).unwrap_or(true))
                .collect();
            if q.offset.is_some() && q.limit.is_none() {
                if !r.is_error() {
                    return Verdict::fail("offset-without-limit-accepted", json!({"cmd": text, "rows": r.rows.len(), "log": w.db.log}));
                }
                rep.label("q:offset-without-limit");
                continue;
            }
            if r.is_error() {
                return Verdict::fail("error-response", json!({"cmd": text, "status": r.status, "message": r.message, "parse_error": r.parse_error, "log": w.db.log}));
            }
            let got = ks_of(&r);
            let got_set: BTreeSet<i64> = got.iter().cloned().collect();
            if got_set.len() != got.len() {
                return Verdict::fail("duplicate-row", json!({"cmd": text, "got": got, "log": w.db.log}));
            }
            if r.streamed && got.len() != r.rows.len() {
                return Verdict::fail("row-without-tag", json!({"cmd": text, "rows": r.rows, "log": w.db.log}));
            }
            let match_set: BTreeSet<i64> = matching.iter().map(|e| e.k).collect();
            if !got_set.is_subset(&match_set) {
                return Verdict::fail("non-matching-row", json!({"cmd": text, "extra": got_set.difference(&match_set).collect::<Vec<_>>(), "log": w.db.log}));
            }
            let m = q.offset.unwrap_or(0) as usize;
            let n = q.limit.map(|l| l as usize).unwrap_or(usize::MAX);
            let expect_len = matching.len().saturating_sub(m).min(n);
            if got.len() != expect_len {
                // context for triage: the same selection without LIMIT / OFFSET and the aggregate count, right now
                let all_now = w.db.cmd(&"QUERY ev".to_string()).map(|r| ks_of(&r).len()).unwrap_or(0);
                let count_now = w.db.cmd(&"QUERY ev COUNT".to_string()).ok().and_then(|r| r.rows.first().and_then(|x| x.first()).and_then(|v| v.as_i64()));
                let live: Vec<Vec<String>> = (0..c.cfg.shard_count).map(|s| w.db.live(s).unwrap_or_default()).collect();
                return Verdict::fail("slice-size", json!({"cmd": text, "got": got.len(), "expected": expect_len, "matching": matching.len(), "all_rows_now": all_now, "count_now": count_now, "live": live, "layout": layout, "log": w.db.log}));
            }
            if let Some((field, desc)) = &q.order {
                // key of a model event / of a returned row
                let key_of = |e: &MEv| -> Value {
                    if field == "timestamp" { json!(e.secs.unwrap_or(0)) } else { e.vals[fidx(field).unwrap()].clone() }
                };
                let col = r.col(field);
                let mut keys: Vec<Value> = vec![];
                for (ri, row) in r.rows.iter().enumerate() {
                    let model_key = key_of(w.model.events.iter().find(|e| e.k == got[ri]).unwrap());
                    if let Some(ci2) = col {
                        let cell = row.get(ci2).cloned().unwrap_or(Value::Null);
                        if cmp_keys(&cell, &model_key) != Some(Ordering::Equal) {
                            return Verdict::fail("sort-key-cell-differs-from-stored-value", json!({"cmd": text, "row": row, "stored": model_key, "columns": r.columns, "log": w.db.log}));
                        }
                    }
                    keys.push(model_key);
                }
                // sorted (nulls: first or last, consistently)
                let nonnull: Vec<&Value> = keys.iter().filter(|k| !k.is_null()).collect();
                for pair in nonnull.windows(2) {
                    let o = cmp_keys(pair[0], pair[1]);
                    let ok = match o {
                        Some(Ordering::Equal) => true,
                        Some(Ordering::Less) => !*desc,
                        Some(Ordering::Greater) => *desc,
                        None => false,
                    };
                    if !ok {
                        return Verdict::fail("not-sorted", json!({"cmd": text, "keys": keys, "layout": layout, "log": w.db.log}));
                    }
                }
                let null_pos: Vec<usize> = keys.iter().enumerate().filter(|(_, k)| k.is_null()).map(|(i, _)| i).collect();
                let n_null = null_pos.len();
                let contiguous_front = null_pos.iter().enumerate().all(|(i, p)| *p == i);
                let contiguous_back = null_pos.iter().enumerate().all(|(i, p)| *p == keys.len() - n_null + i);
                if n_null > 0 && !contiguous_front && !contiguous_back {
                    return Verdict::fail("nulls-interleaved", json!({"cmd": text, "keys": keys, "log": w.db.log}));
                }
                // the multiset of keys is determined: positions m..m+n of the model order
                let mut all: Vec<Value> = matching.iter().map(|e| key_of(e)).collect();
                let sort_with = |v: &mut Vec<Value>, nulls_first: bool| {
                    v.sort_by(|a, b| match (a.is_null(), b.is_null()) {
                        (true, true) => Ordering::Equal,
                        (true, false) => if nulls_first { Ordering::Less } else { Ordering::Greater },
                        (false, true) => if nulls_first { Ordering::Greater } else { Ordering::Less },
                        _ => {
                            let o = cmp_keys(a, b).unwrap_or(Ordering::Equal);
                            if *desc { o.reverse() } else { o }
                        }
                    });
                };
                let mut ok_any = false;
                for nulls_first in [true, false] {
                    sort_with(&mut all, nulls_first);
                    let window: Vec<Value> = all.iter().skip(m).take(n).cloned().collect();
                    let mut a: Vec<String> = window.iter().map(|v| v.to_string()).collect();
                    let mut b: Vec<String> = keys.iter().map(|v| v.to_string()).collect();
                    a.sort();
                    b.sort();
                    if a == b {
                        ok_any = true;
                    }
                }
                if !ok_any {
                    return Verdict::fail("wrong-slice", json!({"cmd": text, "returned_keys": keys, "all_keys_sorted": all, "offset": m, "limit": q.limit, "layout": layout, "log": w.db.log}));
                }
                rep.label(format!("order:{}", field));
                if (tiers >= 2 || c.cfg.shard_count >= 2) && m + got.len() < matching.len() && !got.is_empty() {
                    rep.nontrivial = true;
                }
            } else if (tiers >= 2 || c.cfg.shard_count >= 2) && got.len() < matching.len() && !got.is_empty() {
                rep.nontrivial = true;
            }
        }
    }
    rep.sample = Some(json!({"config": {"shards": c.cfg.shard_count, "event_per_zone": c.cfg.event_per_zone, "fill_factor": c.cfg.fill_factor}, "events": w.model.events.len(), "tail": c.tail,
        "queries": c.queries.iter().take(4).map(|q| q.print(&c.td)).collect::<Vec<_>>()}));
    if !w.db.panics.is_empty() {
        return Verdict::fail("panic-in-worker", json!({"panics": w.db.panics, "log": w.db.log}));
    }
    Verdict::Pass
}

pub fn replay(_check: &str, case: &Value) -> Verdict {
    match serde_json::from_value::<Case>(case.clone()) {
        Ok(c) => {
            let saved = EXCL.lock().unwrap().take();
            let v = run_case(&c, &mut CaseReport::default());
            *EXCL.lock().unwrap() = saved;
            v
        }
        Err(e) => Verdict::Discard(format!("bad case: {}", e)),
    }
}

pub fn run(ctx: &Ctx) -> i32 {
    let stats = Mutex::new(Stats::default());
    let mut report = Report::new(
        "C10",
        "exploration",
        "generated (config, events with duplicate and missing sort keys over int / float / string / datetime / nullable int / u64 fields and the core timestamp, layouts over shards / memory / segments / compaction / restart, 6-24 queries with ORDER BY f [ASC|DESC], LIMIT n (0, 1, small, > size), OFFSET m, WHERE, FOR). Validity oracle: rows are distinct matching events; the key sequence is sorted under the typed order (nulls first or last, consistently); the multiset of returned keys equals positions m..m+n of the model order; without ORDER BY, LIMIT n returns min(n, matches) distinct matching events; OFFSET without LIMIT is rejected. Non-trivial: rows over >= 2 shards or tiers and a window that cuts inside the result.",
    );
    report.assumptions = vec!["ties may be broken arbitrarily; strings order bytewise (no numeric-looking strings generated as sort keys)".into()];
    replay_known(ctx, &stats, &mut report, &replay);
    replay_regressions(ctx, &stats, &mut report, &replay);
    let mut order_by = [false; 7];
    for (i, f) in SORT_FIELDS.iter().enumerate() {
        order_by[i] = ctx.open(&format!("order.by_{}", f));
    }
    let ex = Excl { order_by, offset: ctx.open("order.offset"), limit_with_order: ctx.open("order.limit_with_order"), mixed_tiers: ctx.open("order.memory_and_segments"), where_not_returned: ctx.open("order.where_field_not_returned"), no_restart: ctx.open_any("crash.after_manual_flush_or_clean_restart") || ctx.open_any("crash.store_after_compaction_and_restart"), ordered_offset: ctx.open("order.offset_with_order_and_limit"), no_multi_type_compaction: ctx.open_any("compaction.partial_drain") };
    *EXCL.lock().unwrap() = Some(ex);
    crate::props::c02::KNOWN_ID_REUSE.store(ctx.open_any("layout.stale_cache_after_id_reuse"), std::sync::atomic::Ordering::Relaxed);
    let wx = crate::props::c02::WhereExcl::from_ctx_any(ctx);
    let cases = ctx.tier.pick(240, 1500);
    let tier = ctx.tier;
    if let Some(f) = explore(ctx, "order-limit-offset", || case_strategy(tier, ex, wx), Explore { cases, max_shrink_iters: ctx.tier.pick(100, 400), lanes: ctx.lanes }, &stats, run_case) {
        report.violations.push(f);
    }
    finish(ctx, stats.into_inner().unwrap(), report)
}
