//! C06 - STORE accepts exactly the payloads that conform to the defined schema.

use crate::db::DbConfig;
use crate::fw::*;
use crate::hist::*;
use crate::props::c02::problem_verdict;
use crate::query::Tri;
use proptest::prelude::*;
use serde::{Deserialize, Serialize};
use serde_json::{Map, Value, json};
use std::collections::BTreeSet;
use std::sync::Mutex;

#[derive(Clone, Debug, Serialize, Deserialize)]
pub enum Mutation {
    None,
    DropKey(usize),
    ExtraKey(String, Value),
    RenameKey(usize, String),
    SetValue(usize, Value),
    PayloadNotObject(Value),
    EmptyContext,
    UndefinedType,
    /// every optional field is sent as an explicit null (a conforming spelling of "no value")
    NullOptionals,
}

#[derive(Clone, Debug, Serialize, Deserialize)]
pub struct Attempt {
    pub base: Ev,
    pub muts: Vec<Mutation>,
}

#[derive(Clone, Debug, Serialize, Deserialize)]
pub struct Case {
    pub cfg: DbConfig,
    pub td: TypeDef,
    pub attempts: Vec<Attempt>,
    /// a second schema for the failing re-DEFINE (same name, different fields)
    pub redefine: Option<TypeDef>,
    /// clean restart right after the rejected re-DEFINE (before any event is stored): the schema store is reloaded and
    /// the accepted schema must still be the one in force
    #[serde(default)]
    pub restart_after_redefine: bool,
    pub flush_at_end: bool,
}

pub static HUGE_FLOAT_TIME_EXCLUDED: std::sync::atomic::AtomicBool = std::sync::atomic::AtomicBool::new(false);

fn weird_values() -> Vec<Value> {
    vec![
        Value::Null,
        json!(true),
        json!(false),
        json!(0),
        json!(-1),
        json!(7),
        json!(3.0),
        json!(3.5),
        json!(-0.0),
        json!(1e300),
        json!(i64::MAX),
        json!(i64::MIN),
        json!(i64::MAX as u64 + 1),
        json!(u64::MAX),
        json!(10_000_000_000_000_000_000u64),
        json!(""),
        json!("5"),
        json!("abc"),
        json!("true"),
        json!("é"),
        json!("2025-01-01"),
        json!("2025-01-01T10:00:00Z"),
        json!("2025-01-01T10:00:00+02:00"),
        json!("2025-13-45"),
        json!("not a date"),
        json!("1700000000"),
        json!("V0"),
        json!("v0"),
        json!("v9"),
        json!([1, 2]),
        json!([]),
        json!({"a": 1}),
        json!({}),
        json!(1_700_000_000),
        json!(1_700_000_000_000i64),
        json!(-5_000_000),
    ]
}

fn ref_type_ok(f: &FieldDef, v: &Value) -> Tri {
    if v.is_null() {
        return Tri::from_bool(f.opt);
    }
    match &f.ty {
        FT::Int => match v {
            Value::Number(n) => {
                if n.is_i64() {
                    Tri::True
                } else if n.is_u64() {
                    Tri::False
                } else {
                    let x = n.as_f64().unwrap_or(0.5);
                    if x.fract() == 0.0 && x.abs() < 9e18 { Tri::Either } else { Tri::False }
                }
            }
            _ => Tri::False,
        },
        FT::U64 => match v {
            Value::Number(n) => {
                if n.is_u64() {
                    Tri::True
                } else if n.is_i64() {
                    Tri::False
                } else {
                    let x = n.as_f64().unwrap_or(0.5);
                    if x.fract() == 0.0 && x >= 0.0 && x < 1.8e19 { Tri::Either } else { Tri::False }
                }
            }
            _ => Tri::False,
        },
        FT::Float => match v {
            Value::Number(n) => {
                if n.is_f64() { Tri::True } else { Tri::Either }
            }
            _ => Tri::False,
        },
        FT::Str => Tri::from_bool(v.is_string()),
        FT::Bool => Tri::from_bool(v.is_boolean()),
        FT::Enum(vs) => Tri::from_bool(v.as_str().map(|s| vs.iter().any(|x| x == s)).unwrap_or(false)),
        FT::Datetime | FT::Date => match v {
            Value::String(s) => {
                let date_ok = chrono::NaiveDate::parse_from_str(s, "%Y-%m-%d").is_ok();
                let dt_ok = chrono::DateTime::parse_from_rfc3339(s).is_ok();
                if (f.ty == FT::Datetime && dt_ok) || (f.ty == FT::Date && date_ok) {
                    Tri::True
                } else if dt_ok || date_ok || s.trim().parse::<i128>().is_ok() || s.trim() != s {
                    Tri::Either
                } else {
                    Tri::False
                }
            }
            Value::Number(n) => {
                if let Some(i) = n.as_i64() {
                    if i >= 0 { Tri::True } else { Tri::Either }
                } else if let Some(u) = n.as_u64() {
                    // more than 19 digits is beyond nanoseconds: out of range
                    if u.to_string().len() <= 19 { Tri::Either } else { Tri::False }
                } else {
                    // a float beyond 1e19 is beyond the nanosecond range of every documented unit: an out-of-range time
                    if n.as_f64().map(|x| x.abs() >= 1e19).unwrap_or(false) { Tri::False } else { Tri::Either }
                }
            }
            _ => Tri::False,
        },
    }
}

/// reference validator over the payload as sent
fn ref_validate(td: &TypeDef, payload: &Value) -> Tri {
    let Some(obj) = payload.as_object() else { return Tri::False };
    let mut fields: Vec<FieldDef> = vec![FieldDef { name: "k".into(), ty: FT::Int, opt: false, alias: "int".into() }];
    fields.extend(td.fields.iter().cloned());
    for k in obj.keys() {
        if !fields.iter().any(|f| &f.name == k) {
            return Tri::False;
        }
    }
    let mut r = Tri::True;
    for f in &fields {
        match obj.get(&f.name) {
            None => {
                if !f.opt {
                    return Tri::False;
                }
            }
            Some(v) => r = r.and(ref_type_ok(f, v)),
        }
    }
    r
}

fn case_strategy(tier: Tier, brace_ok: bool) -> BoxedStrategy<Case> {
    let _ = brace_ok;
    (typedef_strategy("ev", 2, 6), cfg_strategy(2), any::<bool>(), any::<u8>(), 0u8..4)
        .prop_flat_map(move |(mut td, cfg, flush_at_end, optbits, extra_time)| {
            // validation of one field must not depend on the others: more nullable fields than the shared type strategy makes,
            // and in half of the cases two or three extra time fields (plain and nullable) next to the generated ones
            for (i, f) in td.fields.iter_mut().enumerate() {
                if (optbits >> i) & 1 == 1 && !matches!(f.ty, FT::Enum(_)) {
                    f.opt = true;
                }
                // a nullable union may name null first ("null | int"); every other field of a case does
                if f.opt && i % 2 == 1 && !matches!(f.ty, FT::Enum(_)) {
                    f.alias = format!("null | {}", f.alias);
                }
            }
            if extra_time >= 2 {
                td.fields.push(FieldDef { name: "tn".into(), ty: FT::Datetime, opt: true, alias: "datetime".into() });
                td.fields.push(FieldDef { name: "tq".into(), ty: FT::Date, opt: false, alias: "date".into() });
                if extra_time == 3 {
                    td.fields.push(FieldDef { name: "tm".into(), ty: FT::Date, opt: true, alias: "date".into() });
                }
            }
            let nf = td.fields.len();
            let names: Vec<String> = td.fields.iter().map(|f| f.name.clone()).collect();
            let ev = ev_strategy(&[td.clone()], 3);
            let names2 = names.clone();
            let mutation = prop_oneof![
                12 => Just(Mutation::None),
                2 => (0..=nf).prop_map(Mutation::DropKey),
                2 => (prop::sample::select(vec!["zz", "K", "f0 ", "F0", "context_id", "timestamp", "event_type", ""]), prop::sample::select(weird_values())).prop_map(|(k, v)| Mutation::ExtraKey(k.to_string(), v)),
                1 => (0..=nf, prop::sample::select(vec!["fO", "F0", "f00", "k2", "f0 "])).prop_map(|(i, n)| Mutation::RenameKey(i, n.to_string())),
                8 => (0..=nf, prop::sample::select(weird_values())).prop_map(|(i, v)| Mutation::SetValue(i, v)),
                1 => prop::sample::select(vec![json!([1]), json!("str"), json!(5), json!(null), json!(true)]).prop_map(Mutation::PayloadNotObject),
                1 => Just(Mutation::EmptyContext),
                1 => Just(Mutation::UndefinedType),
                3 => Just(Mutation::NullOptionals),
            ];
            let attempt = (ev, prop::collection::vec(mutation, 1..=3)).prop_map(|(base, muts)| Attempt { base, muts });
            let _ = names2;
            let td2 = td.clone();
            let redefine = prop::option::weighted(0.5, typedef_strategy("ev", 1, 3)).prop_map(move |o| {
                o.map(|mut t| {
                    // make sure it differs from the original: add a field the original does not have
                    t.fields.push(FieldDef { name: "newfield".into(), ty: FT::Int, opt: false, alias: "int".into() });
                    t.name = td2.name.clone();
                    t
                })
            });
            (Just(cfg), Just(td), prop::collection::vec(attempt, 10..=tier.pick(60, 120)), redefine, Just(flush_at_end), any::<bool>())
        })
        .prop_map(|(cfg, td, attempts, redefine, flush_at_end, restart_after_redefine)| Case { cfg, td, attempts, redefine, flush_at_end, restart_after_redefine })
        .boxed()
}

fn run_case(c: &Case, rep: &mut CaseReport) -> Verdict {
    let types = vec![c.td.clone()];
    let mut w = match World::start("c06", &c.cfg, &types, false) {
        Ok(w) => w,
        Err(e) => {
            rep.inconclusive = Some(format!("start: {:?}", e));
            return Verdict::Discard("start failed".into());
        }
    };
    // failed re-DEFINE: the previous schema stays in force
    let mut redefined = false;
    if let Some(t2) = &c.redefine {
        let r = match w.db.cmd(&t2.define_cmd()) {
            Ok(r) => r,
            Err(e) => return problem_verdict(Problem::Db(e), &mut w, rep),
        };
        if !r.is_error() {
            return Verdict::fail("redefine-accepted", json!({"cmd": t2.define_cmd(), "status": r.status, "message": r.message, "log": w.db.log}));
        }
        redefined = true;
        rep.label("define:failed-redefine");
        // a payload conforming only to the rejected schema must be rejected
        let mut m = Map::new();
        m.insert("k".into(), json!(K_BASE + 9_000_000));
        for f in &t2.fields {
            m.insert(f.name.clone(), crate::fw::sample_one(&small_value(&f.ty, false), 7));
        }
        let cmd = format!("STORE {} FOR c0 PAYLOAD {}", c.td.name, Value::Object(m));
        let r = match w.db.cmd(&cmd) {
            Ok(r) => r,
            Err(e) => return problem_verdict(Problem::Db(e), &mut w, rep),
        };
        if r.ok() {
            return Verdict::fail("payload-of-rejected-schema-accepted", json!({"cmd": cmd, "log": w.db.log}));
        }
        if c.restart_after_redefine {
            if let Err(e) = w.apply(&Op::Restart) {
                return problem_verdict(e, &mut w, rep);
            }
            rep.label("define:restart-after-failed-redefine");
        }
    }
    let mut must_present: BTreeSet<i64> = BTreeSet::new();
    let mut must_absent: BTreeSet<i64> = BTreeSet::new();
    let mut accepted_cmds: u64 = 0;
    for (ai, a) in c.attempts.iter().enumerate() {
        let k = K_BASE + ai as i64;
        let seq = ai;
        let mut payload = Value::Object(payload_json(&c.td, k, &a.base, seq));
        let mut ctx = ctx_name(a.base.ctx);
        let mut ty_name = c.td.name.clone();
        let mut mutated = false;
        let mut expect_extra_reject = false;
        let key_of = |i: usize| if i == 0 { "k".to_string() } else { c.td.fields[(i - 1) % c.td.fields.len()].name.clone() };
        for m in &a.muts {
            match m {
                Mutation::None => {}
                Mutation::NullOptionals => {
                    if let Some(o) = payload.as_object_mut() {
                        for f in c.td.fields.iter().filter(|f| f.opt) {
                            o.insert(f.name.clone(), Value::Null);
                        }
                        mutated = true;
                    }
                }
                Mutation::DropKey(i) => {
                    if let Some(o) = payload.as_object_mut() {
                        o.remove(&key_of(*i));
                        mutated = true;
                    }
                }
                Mutation::ExtraKey(kname, v) => {
                    if let Some(o) = payload.as_object_mut() {
                        o.insert(kname.clone(), v.clone());
                        mutated = true;
                    }
                }
                Mutation::RenameKey(i, n) => {
                    if let Some(o) = payload.as_object_mut() {
                        if let Some(v) = o.remove(&key_of(*i)) {
                            o.insert(n.clone(), v);
                            mutated = true;
                        }
                    }
                }
                Mutation::SetValue(i, v) => {
                    if let Some(o) = payload.as_object_mut() {
                        if *i == 0 {
                            // keep the tag usable: mutate k only into non-integers
                            if !v.is_i64() && !v.is_u64() {
                                o.insert("k".into(), v.clone());
                                mutated = true;
                            }
                        } else {
                            o.insert(key_of(*i), v.clone());
                            mutated = true;
                        }
                    }
                }
                Mutation::PayloadNotObject(v) => {
                    payload = v.clone();
                    mutated = true;
                }
                Mutation::EmptyContext => {
                    ctx = String::new();
                    expect_extra_reject = true;
                    mutated = true;
                }
                Mutation::UndefinedType => {
                    ty_name = "nosuchtype".into();
                    expect_extra_reject = true;
                    mutated = true;
                }
            }
        }
        // open finding: a huge float in a time field is accepted (stored as i64::MAX seconds) and the next flush then walks
        // every hour up to it and never returns; such payloads are not sent while the finding is open
        if HUGE_FLOAT_TIME_EXCLUDED.load(std::sync::atomic::Ordering::Relaxed) {
            let huge = c.td.fields.iter().any(|f| matches!(f.ty, FT::Datetime | FT::Date) && payload.get(&f.name).and_then(|v| v.as_f64()).map(|x| x.abs() >= 1e19 && payload[&f.name].is_f64()).unwrap_or(false));
            if huge {
                rep.excluded_known += 1;
                continue;
            }
        }
        let mut verdict = ref_validate(&c.td, &payload);
        if expect_extra_reject {
            verdict = Tri::False;
        }
        let ctx_txt = if ctx.is_empty() { "\"\"".to_string() } else { ctx.clone() };
        let cmd = format!("STORE {} FOR {} PAYLOAD {}", ty_name, ctx_txt, payload);
        let r = match w.db.cmd(&cmd) {
            Ok(r) => r,
            Err(e) => return problem_verdict(Problem::Db(e), &mut w, rep),
        };
        rep.sub_evals += 1;
        if !r.panics.is_empty() || r.parse_panic || r.dispatch_panic {
            return Verdict::fail("panic", json!({"cmd": cmd, "panics": r.panics, "log": w.db.log}));
        }
        let accepted = r.ok();
        if mutated || redefined {
            rep.nontrivial = true;
        }
        rep.label(match verdict {
            Tri::True => "expect:accept",
            Tri::False => "expect:reject",
            Tri::Either => "expect:either",
        });
        match (verdict, accepted) {
            (Tri::True, false) => {
                return Verdict::fail("conforming-payload-rejected", json!({"cmd": cmd, "status": r.status, "message": r.message, "parse_error": r.parse_error, "schema": c.td.define_cmd(), "log": w.db.log}));
            }
            (Tri::False, true) => {
                return Verdict::fail("non-conforming-payload-accepted", json!({"cmd": cmd, "schema": c.td.define_cmd(), "log": w.db.log}));
            }
            _ => {}
        }
        let has_k = payload.get("k").and_then(|v| v.as_i64()) == Some(k) && ty_name == c.td.name;
        if accepted {
            accepted_cmds += 1;
            if has_k {
                must_present.insert(k);
            }
        } else if has_k {
            must_absent.insert(k);
        }
    }
    // traces: accepted events are readable, rejected ones leave nothing, also after a flush
    for round in 0..2 {
        if round == 1 {
            if !c.flush_at_end {
                break;
            }
            if let Err(e) = w.apply(&Op::Flush) {
                return problem_verdict(e, &mut w, rep);
            }
        }
        if let Err(e) = w.db.barrier() {
            return problem_verdict(Problem::Db(e), &mut w, rep);
        }
        let q = format!("QUERY {} RETURN [k]", c.td.name);
        let r = match w.db.cmd(&q) {
            Ok(r) => r,
            Err(e) => return problem_verdict(Problem::Db(e), &mut w, rep),
        };
        let got: BTreeSet<i64> = ks_of(&r).into_iter().collect();
        let lost: Vec<i64> = must_present.difference(&got).cloned().collect();
        let traces: Vec<i64> = got.intersection(&must_absent).cloned().collect();
        if !lost.is_empty() {
            return Verdict::fail("accepted-event-not-readable", json!({"round": round, "lost": lost, "log": w.db.log}));
        }
        if !traces.is_empty() {
            return Verdict::fail("rejected-store-left-a-trace", json!({"round": round, "traces": traces, "log": w.db.log}));
        }
        if r.streamed && r.rows.len() as u64 != accepted_cmds {
            return Verdict::fail("row-count-differs-from-accepted-stores", json!({"round": round, "rows": r.rows.len(), "accepted": accepted_cmds, "log": w.db.log}));
        }
    }
    rep.sample = Some(json!({"define": c.td.define_cmd(), "attempts": c.attempts.len(), "accepted": accepted_cmds, "redefine": c.redefine.as_ref().map(|t| t.define_cmd()), "last_cmds": w.db.log.iter().rev().skip(2).take(3).collect::<Vec<_>>()}));
    if !w.db.panics.is_empty() {
        return Verdict::fail("panic-in-worker", json!({"panics": w.db.panics, "log": w.db.log}));
    }
    Verdict::Pass
}

pub fn replay(_check: &str, case: &Value) -> Verdict {
    match serde_json::from_value::<Case>(case.clone()) {
        Ok(c) => run_case(&c, &mut CaseReport::default()),
        Err(e) => Verdict::Discard(format!("bad case: {}", e)),
    }
}

pub fn run(ctx: &Ctx) -> i32 {
    let stats = Mutex::new(Stats::default());
    let mut report = Report::new(
        "C06",
        "exploration",
        "generated (schema over every primitive alias / enum / optional / time type, extra plain and nullable time fields in half of the cases; 10-120 STORE attempts each derived from a conforming payload by 1-3 mutations: drop / add / misspell a key, any JSON type or boundary value in any slot, an explicit null in every optional field, non-object payload, empty context, undefined type; optional failing re-DEFINE first). Each response is compared with a reference validator (accept / reject / either); afterwards, and after a FLUSH, the readable events must be exactly the accepted ones. Non-trivial: a mutated payload or a STORE after a failed DEFINE.",
    );
    report.assumptions = vec!["EITHER: integer number in a float field, N.0 in an integer field, numeric strings / negative or float epochs in time fields, date string in a datetime field and vice versa".into()];
    replay_known(ctx, &stats, &mut report, &replay);
    HUGE_FLOAT_TIME_EXCLUDED.store(ctx.open("data.float_time_out_of_range"), std::sync::atomic::Ordering::Relaxed);
    replay_regressions(ctx, &stats, &mut report, &replay);
    let cases = ctx.tier.pick(240, 1500);
    let tier = ctx.tier;
    if let Some(f) = explore(ctx, "store-validation", || case_strategy(tier, true), Explore { cases, max_shrink_iters: ctx.tier.pick(200, 600), lanes: ctx.lanes }, &stats, run_case) {
        report.violations.push(f);
    }
    finish(ctx, stats.into_inner().unwrap(), report)
}
