//! C12 - all events of a context live on one shard; unscoped reads cover all shards.

use crate::db::DbConfig;
use crate::fw::*;
use crate::hist::*;
use crate::props::c02::problem_verdict;
use proptest::prelude::*;
use serde::{Deserialize, Serialize};
use serde_json::{Value, json};
use std::collections::{BTreeMap, BTreeSet};
use std::sync::Mutex;

#[derive(Clone, Debug, Serialize, Deserialize)]
pub enum Step {
    /// store an event of type `ty` for context index `ctx`
    Store { ty: usize, ctx: usize },
    Flush,
    Restart,
}

#[derive(Clone, Debug, Serialize, Deserialize)]
pub struct Case {
    pub cfg: DbConfig,
    pub contexts: Vec<String>,
    pub steps: Vec<Step>,
}

/// SipHash-1-3 with zero keys over `bytes ++ 0xff` (what `str::hash` feeds to the std DefaultHasher),
/// written out here so that the routing oracle does not call the code under test.
pub fn siphash13_str(s: &str) -> u64 {
    let mut data: Vec<u8> = s.as_bytes().to_vec();
    data.push(0xff);
    let (k0, k1) = (0u64, 0u64);
    let mut v0 = k0 ^ 0x736f6d6570736575;
    let mut v1 = k1 ^ 0x646f72616e646f6d;
    let mut v2 = k0 ^ 0x6c7967656e657261;
    let mut v3 = k1 ^ 0x7465646279746573;
    macro_rules! round {
        () => {
            v0 = v0.wrapping_add(v1);
            v1 = v1.rotate_left(13);
            v1 ^= v0;
            v0 = v0.rotate_left(32);
            v2 = v2.wrapping_add(v3);
            v3 = v3.rotate_left(16);
            v3 ^= v2;
            v0 = v0.wrapping_add(v3);
            v3 = v3.rotate_left(21);
            v3 ^= v0;
            v2 = v2.wrapping_add(v1);
            v1 = v1.rotate_left(17);
            v1 ^= v2;
            v2 = v2.rotate_left(32);
        };
    }
    let len = data.len();
    let mut i = 0;
    while i + 8 <= len {
        let m = u64::from_le_bytes(data[i..i + 8].try_into().unwrap());
        v3 ^= m;
        round!();
        v0 ^= m;
        i += 8;
    }
    let mut last: u64 = (len as u64 & 0xff) << 56;
    for (j, b) in data[i..].iter().enumerate() {
        last |= (*b as u64) << (8 * j);
    }
    v3 ^= last;
    round!();
    v0 ^= last;
    v2 ^= 0xff;
    round!();
    round!();
    round!();
    v0 ^ v1 ^ v2 ^ v3
}

fn ctx_strategy() -> BoxedStrategy<String> {
    prop_oneof![
        3 => "[a-z][a-z0-9_-]{0,8}".prop_map(|s| s),
        2 => prop::sample::select(vec!["a", "A", "a ", " a", "  ", "user:ext:42", "10", "0", "-1", "true", "null", "é", "日本", "x y", "tab\tsep", "semi;colon", "per%cent", "sl/ash", "back\\slash", "{brace}", "[br]", "comma,", "q?", "ÅÄÖ", "İ", "ß", "ss"]).prop_map(|s| s.to_string()),
        1 => "[ -!#-~]{1,12}".prop_map(|s| s),
        1 => "\\PC{1,6}".prop_map(|s| s.replace('"', "'")),
        1 => (1usize..40).prop_map(|n| "long".repeat(n * 13)),
    ]
    .prop_filter("non-blank, no quote / control", |s| !s.trim().is_empty() && !s.contains('"') && !s.chars().any(|c| c.is_control() && c != '\t'))
    .boxed()
}

fn case_strategy(tier: Tier) -> BoxedStrategy<Case> {
    (1usize..=8, prop::collection::btree_set(ctx_strategy(), 3..=10))
        .prop_flat_map(move |(shards, ctxs)| {
            let contexts: Vec<String> = ctxs.into_iter().collect();
            let n = contexts.len();
            let cfg = DbConfig { shard_count: shards, event_per_zone: 4, fill_factor: 8, ..DbConfig::default() };
            let step = prop_oneof![
                20 => (0usize..2, 0..n).prop_map(|(ty, ctx)| Step::Store { ty, ctx }),
                1 => Just(Step::Flush),
                2 => Just(Step::Restart),
            ];
            (Just(cfg), Just(contexts), prop::collection::vec(step, 8..=tier.pick(50, 90)))
        })
        .prop_map(|(cfg, contexts, steps)| Case { cfg, contexts, steps })
        .boxed()
}

fn run_case(c: &Case, rep: &mut CaseReport) -> Verdict {
    let types = crate::props::c01::simple_types();
    let mut w = match World::start("c12", &c.cfg, &types, false) {
        Ok(w) => w,
        Err(e) => {
            rep.inconclusive = Some(format!("start: {:?}", e));
            return Verdict::Discard("start failed".into());
        }
    };
    let n = c.cfg.shard_count;
    // model: (k, ty, ctx index)
    let mut events: Vec<(i64, usize, usize)> = vec![];
    let mut restarts = 0;
    for (si, st) in c.steps.iter().enumerate() {
        match st {
            Step::Store { ty, ctx } => {
                let k = K_BASE + si as i64;
                let payload = if *ty == 0 { json!({"k": k, "x": 1, "s": "a"}) } else { json!({"k": k, "y": 0.5, "e": "v0"}) };
                let cmd = format!("STORE {} FOR \"{}\" PAYLOAD {}", types[*ty].name, c.contexts[*ctx], payload);
                let r = match w.db.cmd(&cmd) {
                    Ok(r) => r,
                    Err(e) => return problem_verdict(Problem::Db(e), &mut w, rep),
                };
                if !r.ok() {
                    return Verdict::fail("store-rejected", json!({"cmd": cmd, "status": r.status, "message": r.message, "parse_error": r.parse_error, "log": w.db.log}));
                }
                events.push((k, *ty, *ctx));
            }
            Step::Flush => {
                if let Err(e) = w.apply(&Op::Flush) {
                    return problem_verdict(e, &mut w, rep);
                }
            }
            Step::Restart => {
                if let Err(e) = w.apply(&Op::Restart) {
                    return problem_verdict(e, &mut w, rep);
                }
                restarts += 1;
            }
        }
    }
    if let Err(e) = w.db.barrier() {
        return problem_verdict(Problem::Db(e), &mut w, rep);
    }
    // unscoped reads: union over all contexts / shards
    let mut shard_of_k: BTreeMap<i64, u64> = BTreeMap::new();
    for (ti, t) in types.iter().enumerate() {
        let q = format!("QUERY {}", t.name);
        let r = match w.db.cmd(&q) {
            Ok(r) => r,
            Err(e) => return problem_verdict(Problem::Db(e), &mut w, rep),
        };
        rep.sub_evals += 1;
        let want: BTreeSet<i64> = events.iter().filter(|e| e.1 == ti).map(|e| e.0).collect();
        let got: BTreeSet<i64> = ks_of(&r).into_iter().collect();
        if got != want {
            let missing: Vec<i64> = want.difference(&got).cloned().collect();
            return Verdict::fail("unscoped-query-misses-a-shard", json!({"cmd": q, "missing": missing, "extra": got.difference(&want).collect::<Vec<_>>(), "contexts": c.contexts, "log": w.db.log}));
        }
        if let Some(ei) = r.col("event_id") {
            for row in &r.rows {
                if let (Some(k), Some(id)) = (row_k(row), row.get(ei).and_then(|v| v.as_u64())) {
                    shard_of_k.insert(k, (id >> 12) & 0x3ff);
                }
            }
        }
    }
    // per context: constant shard tag, equal to the independent hash; scoped reads complete and exact
    let mut shards_with_data = BTreeSet::new();
    for (ci, ctx) in c.contexts.iter().enumerate() {
        let mine: Vec<&(i64, usize, usize)> = events.iter().filter(|e| e.2 == ci).collect();
        if mine.is_empty() {
            continue;
        }
        let expect = siphash13_str(ctx) % n as u64;
        shards_with_data.insert(expect);
        for e in &mine {
            match shard_of_k.get(&e.0) {
                Some(s) if *s == expect => {}
                other => {
                    return Verdict::fail("shard-tag-differs-from-routing-hash", json!({"context": ctx, "k": e.0, "observed": other, "expected": expect, "shards": n, "log": w.db.log}));
                }
            }
        }
        for (ti, t) in types.iter().enumerate() {
            let want: BTreeSet<i64> = mine.iter().filter(|e| e.1 == ti).map(|e| e.0).collect();
            for q in [format!("QUERY {} FOR \"{}\" RETURN [k]", t.name, ctx), format!("REPLAY {} FOR \"{}\" RETURN [k]", t.name, ctx)] {
                let r = match w.db.cmd(&q) {
                    Ok(r) => r,
                    Err(e) => return problem_verdict(Problem::Db(e), &mut w, rep),
                };
                rep.sub_evals += 1;
                let got: BTreeSet<i64> = ks_of(&r).into_iter().collect();
                if got != want {
                    return Verdict::fail("scoped-read-wrong", json!({"cmd": q, "got": got, "want": want, "context": ctx, "log": w.db.log}));
                }
            }
        }
    }
    // WAL: a context's lines appear in exactly one shard directory
    let mut wal_ctx_shards: BTreeMap<String, BTreeSet<usize>> = BTreeMap::new();
    for s in 0..n {
        let d = w.case.path.join("wal").join(format!("shard-{}", s));
        if let Ok(rd) = std::fs::read_dir(&d) {
            for e in rd.flatten() {
                if e.path().extension().map(|x| x == "log").unwrap_or(false) {
                    for line in std::fs::read_to_string(e.path()).unwrap_or_default().lines() {
                        if let Ok(v) = serde_json::from_str::<Value>(line) {
                            if let Some(cid) = v["context_id"].as_str() {
                                wal_ctx_shards.entry(cid.to_string()).or_default().insert(s);
                            }
                        }
                    }
                }
            }
        }
    }
    for (cid, ss) in &wal_ctx_shards {
        if ss.len() > 1 {
            return Verdict::fail("context-in-several-wal-shards", json!({"context": cid, "shards": ss, "log": w.db.log}));
        }
    }
    if shards_with_data.len() >= 2 && restarts >= 1 {
        rep.nontrivial = true;
    }
    if shards_with_data.len() >= 3 {
        rep.label("shards_with_data>=3");
    }
    if (shards_with_data.len() as usize) < n {
        rep.label("some-shard-empty");
    }
    if c.contexts.iter().any(|s| !s.is_ascii()) {
        rep.label("ctx:non-ascii");
    }
    if c.contexts.iter().any(|s| s.len() > 100) {
        rep.label("ctx:long");
    }
    rep.sample = Some(json!({"shards": n, "contexts": c.contexts.iter().map(|s| s.chars().take(20).collect::<String>()).collect::<Vec<_>>(), "events": events.len(), "restarts": restarts}));
    if !w.db.panics.is_empty() {
        return Verdict::fail("panic-in-worker", json!({"panics": w.db.panics, "log": w.db.log}));
    }
    Verdict::Pass
}

pub fn replay(_check: &str, case: &Value) -> Verdict {
    match serde_json::from_value::<Case>(case.clone()) {
        Ok(c) => run_case(&c, &mut CaseReport::default()),
        Err(e) => Verdict::Discard(format!("bad case: {}", e)),
    }
}

pub fn run(ctx: &Ctx) -> i32 {
    let stats = Mutex::new(Stats::default());
    let mut report = Report::new(
        "C12",
        "exploration",
        "generated (1-8 shards, 3-10 context id strings: short / 500+ bytes / non-ASCII / case and whitespace variants / numeric- and keyword-looking / punctuation, 8-90 steps of STORE over two event types, FLUSH, clean restart); afterwards: the shard tag in every event id of a context is constant across lifetimes and equals an independently written SipHash-1-3 of the id modulo the shard count; QUERY/REPLAY FOR the context return all and only its events; unscoped QUERY returns the union over all shards; a context's WAL lines live in one shard directory. Non-trivial: >= 2 shards hold data and >= 1 restart.",
    );
    report.assumptions = vec!["context ids containing a double quote or control characters are not expressible in the command syntax and are not generated".into()];
    replay_known(ctx, &stats, &mut report, &replay);
    replay_regressions(ctx, &stats, &mut report, &replay);
    let cases = ctx.tier.pick(80, 1200);
    let tier = ctx.tier;
    if let Some(f) = explore(ctx, "routing", || case_strategy(tier), Explore { cases, max_shrink_iters: ctx.tier.pick(100, 400), lanes: ctx.lanes }, &stats, run_case) {
        report.violations.push(f);
    }
    finish(ctx, stats.into_inner().unwrap(), report)
}
