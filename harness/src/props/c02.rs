//! C02 - a query returns exactly the matching events, wherever they are stored.

use crate::db::DbConfig;
use crate::fw::*;
use crate::hist::*;
use crate::query::*;
use proptest::prelude::*;
use serde::{Deserialize, Serialize};
use serde_json::{Value, json};
use std::collections::BTreeSet;
use std::sync::Mutex;

#[derive(Clone, Debug, Serialize, Deserialize)]
pub struct Q {
    pub ty: usize,
    pub ctx: Option<usize>,
    /// SINCE offset from the case clock base (core timestamp)
    pub since_off: Option<u32>,
    pub wh: Option<WExpr>,
    pub ret_k: bool,
}

#[derive(Clone, Debug, Serialize, Deserialize)]
pub struct Case {
    pub cfg: DbConfig,
    pub types: Vec<TypeDef>,
    pub n_ctx: usize,
    pub ops: Vec<Op>,
    pub tail: Vec<Op>,
    pub queries: Vec<Q>,
    #[serde(default)]
    pub excluded: u32,
}

impl Q {
    pub fn print(&self, types: &[TypeDef], base: u64) -> String {
        let mut s = format!("QUERY {}", types[self.ty].name);
        if let Some(c) = self.ctx {
            s.push_str(&format!(" FOR {}", ctx_name(c)));
        }
        if let Some(off) = self.since_off {
            let t = chrono::DateTime::from_timestamp((base + off as u64) as i64, 0).unwrap();
            s.push_str(&format!(" SINCE \"{}\"", t.to_rfc3339_opts(chrono::SecondsFormat::Secs, true)));
        }
        if self.ret_k {
            s.push_str(" RETURN [k]");
        }
        if let Some(w) = &self.wh {
            s.push_str(&format!(" WHERE {}", w.print()));
        }
        s
    }
    pub fn eval(&self, types: &[TypeDef], e: &MEv, base: u64) -> Tri {
        if e.ty != self.ty {
            return Tri::False;
        }
        if let Some(c) = self.ctx {
            if e.ctx != ctx_name(c) {
                return Tri::False;
            }
        }
        let mut r = Tri::True;
        if let Some(off) = self.since_off {
            match e.secs {
                Some(s) => r = r.and(Tri::from_bool(s >= base + off as u64)),
                None => r = r.and(Tri::Either),
            }
        }
        if let Some(w) = &self.wh {
            r = r.and(w.eval(&types[self.ty], &e.vals, e.k));
        }
        r
    }
}

fn case_strategy(ctx: &Ctx) -> BoxedStrategy<Case> {
    let tier = ctx.tier;
    let excl_float = ctx.open("where.float_literal");
    let excl_int_on_float = ctx.open("where.int_lit_on_float_col");
    let excl_neg_u64 = ctx.open("where.neg_lit_on_u64_col");
    let excl_big_u64 = ctx.open("data.u64_above_i64_max");
    let excl_bool = ctx.open("where.bool_col");
    let excl_numstr = ctx.open("where.numeric_looking_string_literal");
    let excl_opt = ctx.open("where.optional_field");
    (
        cfg_strategy(3),
        prop::collection::vec(typedef_strategy("ev", 1, 4), 1..=2),
        2usize..=4,
    )
        .prop_flat_map(move |(cfg, mut types, n_ctx)| {
            for (i, t) in types.iter_mut().enumerate() {
                t.name = format!("ev{}", i);
            }
            let max_ops = tier.pick(40, 90);
            let nt = types.len();
            let types2 = types.clone();
            let q = (0..nt, prop::option::weighted(0.3, 0..n_ctx), prop::option::weighted(0.15, 0u32..5), any::<bool>())
                .prop_flat_map(move |(ty, qctx, since_off, ret_k)| {
                    let wh = where_strategy(&types2[ty], 3);
                    prop::option::weighted(0.92, wh).prop_map(move |wh| Q { ty, ctx: qctx, since_off, wh, ret_k })
                });
            let clocked_ops = {
                let ev = ev_strategy(&types, n_ctx);
                let op = prop_oneof![
                    30 => ev.prop_map(Op::Store),
                    3 => (0u32..5).prop_map(Op::Clock),
                    2 => Just(Op::Flush),
                    2 => Just(Op::Barrier),
                    2 => (1u8..=3).prop_map(Op::Compact),
                ];
                prop::collection::vec(op, 6..=max_ops)
            };
            let tail = prop::collection::vec(
                prop_oneof![3 => Just(Op::Flush), 3 => (1u8..=3).prop_map(Op::Compact), 2 => Just(Op::Restart), 1 => Just(Op::Barrier)],
                1..=3,
            );
            // the payload time values of the shared generators sit on a half-hour grid; a third of the cases stretch the grid
            // to days, three days or thirty days per step (values and literals alike), so that one zone spans weeks or months
            let stretch = prop_oneof![4 => Just(1800i64), 1 => Just(86_400i64), 1 => Just(3 * 86_400i64), 1 => Just(30 * 86_400i64)];
            (Just(cfg), Just(types), Just(n_ctx), clocked_ops, tail, prop::collection::vec(q, 6..=tier.pick(14, 24)), stretch)
        })
        .prop_map(|(cfg, types, n_ctx, mut ops, tail, mut queries, step)| {
            if step != 1800 {
                for op in ops.iter_mut() {
                    if let Op::Store(ev) = op {
                        for (f, v) in types[ev.ty].fields.iter().zip(ev.vals.iter_mut()) {
                            if matches!(f.ty, FT::Datetime | FT::Date) {
                                if let Some(x) = v.as_i64() {
                                    *v = json!(crate::props::c08::remap_time(x, 1_700_000_000, step));
                                }
                            }
                        }
                    }
                }
                for q in queries.iter_mut() {
                    if let Some(w) = q.wh.as_mut() {
                        crate::props::c08::remap_where(&types[q.ty], w, 1_700_000_000, step);
                    }
                }
            }
            Case { cfg, types, n_ctx, ops, tail, queries, excluded: 0 }
        })
        .prop_map(move |mut c| {
            // exclusion of open finding classes by construction (counted as excluded_known at run time)
            let types = c.types.clone();
            if excl_big_u64 {
                for op in c.ops.iter_mut() {
                    if let Op::Store(ev) = op {
                        for (f, v) in types[ev.ty].fields.iter().zip(ev.vals.iter_mut()) {
                            if f.ty == FT::U64 && v.as_u64().map(|u| u > i64::MAX as u64).unwrap_or(false) {
                                *v = json!(i64::MAX as u64);
                            }
                        }
                    }
                }
            }
            let before = c.queries.len();
            c.queries.retain(|q| {
                let td = &types[q.ty];
                let fty = |f: &str| td.field(f).map(|x| x.ty.clone());
                if let Some(w) = &q.wh {
                    if excl_float && w.any_lit(&|_, l| matches!(l, Lit::Float(_))) {
                        return false;
                    }
                    if excl_int_on_float && w.any_lit(&|f, l| matches!(l, Lit::Int(_)) && fty(f) == Some(FT::Float)) {
                        return false;
                    }
                    if excl_neg_u64 && w.any_lit(&|f, l| matches!(l, Lit::Int(i) if *i < 0) && fty(f) == Some(FT::U64)) {
                        return false;
                    }
                    if excl_bool && w.any_lit(&|f, _| fty(f) == Some(FT::Bool)) {
                        return false;
                    }
                    // predicates over optional fields are generated although the finding about null cells is open: a
                    // null cell makes a row undecided (it may or may not be returned), every other row is judged; only the
                    // cross-layout comparison leaves the undecided rows out (run_case, NULL_CELLS_UNDECIDED_ACROSS_LAYOUTS)
                    let _ = excl_opt;
                    if excl_numstr
                        && w.any_lit(&|f, l| {
                            matches!(fty(f), Some(FT::Str) | Some(FT::Enum(_)))
                                && match l {
                                    Lit::Str(s) | Lit::Word(s) => s.trim().parse::<i128>().is_ok() || norm_time(&json!(s)).is_some(),
                                    _ => true, // numeric literal on a string column
                                }
                        })
                    {
                        return false;
                    }
                }
                true
            });
            c.excluded = (before - c.queries.len()) as u32;
            c
        })
        .boxed()
}

pub static KNOWN_ID_REUSE: std::sync::atomic::AtomicBool = std::sync::atomic::AtomicBool::new(false);

fn run_case(c: &Case, rep: &mut CaseReport) -> Verdict {
    rep.excluded_known += c.excluded as u64;
    if c.queries.is_empty() {
        return Verdict::Discard("all queries excluded".into());
    }
    let mut w = match World::start("c02", &c.cfg, &c.types, true) {
        Ok(w) => w,
        Err(e) => {
            rep.inconclusive = Some(format!("start: {:?}", e));
            return Verdict::Discard("start failed".into());
        }
    };
    for op in &c.ops {
        if let Err(e) = w.apply(op) {
            return problem_verdict(e, &mut w, rep);
        }
    }
    let base = w.base_secs;
    let mut first: Vec<Option<BTreeSet<i64>>> = vec![None; c.queries.len()];
    let n_check = c.tail.len() + 1;
    for ci in 0..n_check {
        if ci > 0 {
            if let Err(e) = w.apply(&c.tail[ci - 1]) {
                return problem_verdict(e, &mut w, rep);
            }
        }
        // C02 observes quiescent states only (reads racing a flush belong to C03, which owns the schedule)
        if let Err(e) = w.db.barrier() {
            return problem_verdict(Problem::Db(e), &mut w, rep);
        }
        if w.id_reused && KNOWN_ID_REUSE.load(std::sync::atomic::Ordering::Relaxed) {
            rep.excluded_known += 1;
            return Verdict::Discard("known: retired segment id re-created in the same process lifetime".into());
        }
        let layout = w.layout_labels();
        for l in &layout {
            rep.label(l.clone());
        }
        let on_disk = layout.iter().any(|l| l.starts_with("layout:l"));
        for (qi, q) in c.queries.iter().enumerate() {
            let text = q.print(&c.types, base);
            let r = match w.db.cmd(&text) {
                Ok(r) => r,
                Err(e) => return problem_verdict(Problem::Db(e), &mut w, rep),
            };
            rep.sub_evals += 1;
            let mut must = BTreeSet::new();
            let mut may = BTreeSet::new();
            let mut has_either = false;
            for e in &w.model.events {
                match q.eval(&c.types, e, base) {
                    Tri::True => {
                        must.insert(e.k);
                    }
                    Tri::Either => {
                        may.insert(e.k);
                        has_either = true;
                    }
                    Tri::False => {}
                }
            }
            if !r.panics.is_empty() || r.dispatch_panic || r.parse_panic {
                return Verdict::fail("panic", json!({"query": text, "panics": r.panics, "log": w.db.log}));
            }
            if r.parse_error.is_some() || !(r.status == 200) {
                // "No matching events" style answers are non-streamed 200s; anything else is an error
                if has_either {
                    continue;
                }
                return Verdict::fail(
                    "error-response",
                    json!({"query": text, "status": r.status, "message": r.message, "parse_error": r.parse_error, "log": w.db.log}),
                );
            }
            let got_list = ks_of(&r);
            let got: BTreeSet<i64> = got_list.iter().cloned().collect();
            if got_list.len() != got.len() {
                return Verdict::fail("duplicate-row", json!({"query": text, "got": got_list, "log": w.db.log}));
            }
            if r.streamed && got.len() != r.rows.len() {
                return Verdict::fail("row-without-tag", json!({"query": text, "rows": r.rows, "log": w.db.log}));
            }
            let missing: Vec<i64> = must.difference(&got).cloned().collect();
            let extra: Vec<i64> = got.iter().filter(|k| !must.contains(k) && !may.contains(k)).cloned().collect();
            if let Some(w0) = &q.wh {
                let mut ls = vec![];
                w0.labels(&c.types[q.ty], &mut ls);
                ls.sort();
                ls.dedup();
                for l in ls {
                    rep.label(l);
                }
            }
            if q.since_off.is_some() {
                rep.label("q:since");
            }
            if q.ctx.is_some() {
                rep.label("q:for");
            }
            if !missing.is_empty() || !extra.is_empty() {
                let sig = if !missing.is_empty() { "ref:missing" } else { "ref:extra" };
                let ev_dump: Vec<Value> = w
                    .model
                    .events
                    .iter()
                    .filter(|e| e.ty == q.ty)
                    .map(|e| json!({"k": e.k, "ctx": e.ctx, "vals": e.vals, "secs": e.secs.map(|s| s - base)}))
                    .collect();
                return Verdict::fail(
                    sig,
                    json!({"query": text, "checkpoint": ci, "layout": layout, "missing": missing, "extra": extra, "got": got,
                           "fields": c.types[q.ty].fields, "events": ev_dump, "log": w.db.log}),
                );
            }
            // metamorphic: identical answer at every checkpoint (same data, other layout)
            // open finding: a null cell is answered differently in memory and in a segment - rows the reference cannot decide
            // (null cell under the predicate) are left out of the comparison between layouts while it is open
            let decided_only = NULL_CELLS_UNDECIDED_ACROSS_LAYOUTS.load(std::sync::atomic::Ordering::Relaxed);
            let got_cmp: BTreeSet<i64> = if decided_only { got.iter().filter(|k| !may.contains(k)).cloned().collect() } else { got.clone() };
            if decided_only && !may.is_empty() {
                rep.excluded_known += 1;
            }
            match &first[qi] {
                None => first[qi] = Some(got_cmp.clone()),
                Some(f0) => {
                    if *f0 != got_cmp {
                        return Verdict::fail(
                            "meta:layout-divergence",
                            json!({"query": text, "checkpoint": ci, "layout": layout, "first": f0, "now": got, "log": w.db.log}),
                        );
                    }
                }
            }
            let total = w.model.events.iter().filter(|e| e.ty == q.ty).count();
            if on_disk && !must.is_empty() && must.len() < total && c.cfg.event_per_zone > 1 {
                rep.nontrivial = true;
            }
        }
    }
    if rep.sample.is_none() {
        rep.sample = Some(json!({
            "config": {"shards": c.cfg.shard_count, "event_per_zone": c.cfg.event_per_zone, "fill_factor": c.cfg.fill_factor, "segments_per_merge": c.cfg.segments_per_merge},
            "define": c.types.iter().map(|t| t.define_cmd()).collect::<Vec<_>>(),
            "events": w.model.events.len(),
            "tail": c.tail,
            "queries": c.queries.iter().take(4).map(|q| q.print(&c.types, base)).collect::<Vec<_>>(),
        }));
    }
    if !w.compaction_errors.is_empty() {
        rep.label("compaction-failed");
        // which failure: the message with the generated uids masked
        for e in &w.compaction_errors {
            let masked: String = e.split_whitespace().map(|t| if t.len() >= 16 && t.chars().filter(|c| c.is_ascii_alphanumeric()).count() >= 16 && t.chars().any(|c| c.is_ascii_digit()) && t.chars().any(|c| c.is_ascii_uppercase()) { "<uid>" } else { t }).collect::<Vec<_>>().join(" ");
            rep.label(format!("compaction-failed:{}", masked.chars().take(420).collect::<String>()));
        }
    }
    if !w.db.panics.is_empty() {
        return Verdict::fail("panic-in-worker", json!({"panics": w.db.panics, "log": w.db.log}));
    }
    Verdict::Pass
}

pub static NULL_CELLS_UNDECIDED_ACROSS_LAYOUTS: std::sync::atomic::AtomicBool = std::sync::atomic::AtomicBool::new(false);

pub fn problem_verdict(e: Problem, w: &mut World, rep: &mut CaseReport) -> Verdict {
    match e {
        Problem::Db(crate::db::DbError::Timeout) => {
            let path = crate::db::work_root().join(format!("watchdog-{}-{}.json", std::process::id(), w.db.log.len()));
            let _ = std::fs::write(&path, serde_json::to_string_pretty(&json!({"log": w.db.log, "dir": w.case.path})).unwrap_or_default());
            w.case.keep = true;
            rep.inconclusive = Some(format!("watchdog (log: {})", path.display()));
            Verdict::Discard("watchdog".into())
        }
        Problem::Db(crate::db::DbError::Proto(e)) => {
            rep.inconclusive = Some(format!("harness: {}", e));
            Verdict::Discard("harness error".into())
        }
        Problem::Db(d) => Verdict::fail("worker-died", json!({"error": d.to_string(), "panics": w.db.panics, "log": w.db.log})),
        Problem::Unexpected(s) => Verdict::fail("unexpected-response", json!({"what": s, "log": w.db.log})),
    }
}

pub fn replay(check: &str, case: &Value) -> Verdict {
    let _ = check;
    match serde_json::from_value::<Case>(case.clone()) {
        Ok(c) => run_case(&c, &mut CaseReport::default()),
        Err(e) => Verdict::Discard(format!("bad case: {}", e)),
    }
}

pub fn run(ctx: &Ctx) -> i32 {
    let stats = Mutex::new(Stats::default());
    let mut report = Report::new(
        "C02",
        "exploration",
        "generated (config, 1-2 schemas, 6-90 ops of STORE/clock/FLUSH/barrier/compaction, 1-3 layout-only tail ops incl. restart, 6-24 WHERE/FOR/SINCE queries); each query is evaluated at every checkpoint against the three-valued reference evaluator (both directions) and against its own answer at the first checkpoint. Non-trivial: a checkpoint with on-disk segments, event_per_zone>1, and a query whose forced result is a non-empty strict subset of the type's events.",
    );
    report.assumptions = vec![
        "EITHER verdicts (null cells, ordering on strings, unknown fields, incomparable literal kinds) are not demanded by the reference oracle".into(),
        "fake STORE clock <= real clock".into(),
    ];
    replay_known(ctx, &stats, &mut report, &replay);
    // exploration (not replay) stays outside the open class "a retired segment id is re-created in one lifetime"
    KNOWN_ID_REUSE.store(ctx.open_any("layout.stale_cache_after_id_reuse"), std::sync::atomic::Ordering::Relaxed);
    NULL_CELLS_UNDECIDED_ACROSS_LAYOUTS.store(ctx.open("where.optional_field"), std::sync::atomic::Ordering::Relaxed);
    replay_regressions(ctx, &stats, &mut report, &replay);
    let cases = ctx.tier.pick(160, 2400);
    if let Some(f) = explore(ctx, "layouts", || case_strategy(ctx), Explore { cases, max_shrink_iters: ctx.tier.pick(60, 300), lanes: ctx.lanes }, &stats, run_case) {
        report.violations.push(f);
    }
    finish(ctx, stats.into_inner().unwrap(), report)
}

// ---------------------------------------------------------------- known-finding inputs

fn simple_case(fields: Vec<(&str, FT)>, rows: Vec<Vec<Value>>, mem_rows: Vec<Vec<Value>>, wh: WExpr) -> Case {
    let td = TypeDef {
        name: "ev0".into(),
        fields: fields
            .into_iter()
            .map(|(n, ty)| FieldDef { name: n.to_string(), alias: aliases(&ty)[0].to_string(), ty, opt: false })
            .collect(),
    };
    let mut ops: Vec<Op> = rows.into_iter().enumerate().map(|(i, vals)| Op::Store(Ev { ty: 0, ctx: i % 2, vals })).collect();
    ops.push(Op::Flush);
    for (i, vals) in mem_rows.into_iter().enumerate() {
        ops.push(Op::Store(Ev { ty: 0, ctx: i % 2, vals }));
    }
    Case {
        cfg: DbConfig { event_per_zone: 2, fill_factor: 4, ..DbConfig::default() },
        types: vec![td],
        n_ctx: 2,
        ops,
        tail: vec![Op::Barrier],
        queries: vec![Q { ty: 0, ctx: None, since_off: None, wh: Some(wh), ret_k: true }],
        excluded: 0,
    }
}

pub fn known_cases() -> Vec<(&'static str, &'static str, Value)> {
    let cmp = |f: &str, op: Cmp, lit: Lit| WExpr::Cmp { field: f.into(), op, lit };
    let floats = vec![vec![json!(1.5)], vec![json!(2.0)], vec![json!(-0.5)], vec![json!(0.0)]];
    let ints = vec![vec![json!(1)], vec![json!(2)], vec![json!(-3)], vec![json!(4)]];
    vec![
        ("C02-float-literal", "layouts", serde_json::to_value(simple_case(vec![("f", FT::Float)], floats.clone(), vec![vec![json!(2.5)]], cmp("f", Cmp::Gt, Lit::Float(1.2)))).unwrap()),
        ("C02-int-literal-on-float-column", "layouts", serde_json::to_value(simple_case(vec![("f", FT::Float)], floats.clone(), vec![], cmp("f", Cmp::Gte, Lit::Int(2)))).unwrap()),
        ("C02-float-literal-on-int-column", "layouts", serde_json::to_value(simple_case(vec![("x", FT::Int)], ints.clone(), vec![], cmp("x", Cmp::Gt, Lit::Float(1.5)))).unwrap()),
        ("C02-negative-literal-on-u64-column", "layouts", serde_json::to_value(simple_case(vec![("u", FT::U64)], vec![vec![json!(1)], vec![json!(2)], vec![json!(3)]], vec![], cmp("u", Cmp::Gte, Lit::Int(-1)))).unwrap()),
        ("C02-u64-above-i64-max-in-memory", "layouts", serde_json::to_value(simple_case(vec![("u", FT::U64)], vec![vec![json!(1)], vec![json!(4)]], vec![vec![json!(u64::MAX)]], cmp("u", Cmp::Gt, Lit::Int(3)))).unwrap()),
        ("C02-numeric-looking-string-literal", "layouts", serde_json::to_value(simple_case(vec![("s", FT::Str)], vec![], vec![vec![json!("true")], vec![json!("B")], vec![json!("10")]], cmp("s", Cmp::Neq, Lit::Str("10".into())))).unwrap()),
        ("C02-bool-column", "layouts", serde_json::to_value(simple_case(vec![("b", FT::Bool)], vec![vec![json!(true)], vec![json!(false)], vec![json!(true)]], vec![], cmp("b", Cmp::Eq, Lit::Word("true".into())))).unwrap()),
    ]
}

/// inputs that exposed defects which have since been repaired in /repo (must pass)
pub fn regress_cases() -> Vec<(&'static str, &'static str, Value)> {
    let cmp = |f: &str, op: Cmp, lit: Lit| WExpr::Cmp { field: f.into(), op, lit };
    let ints = vec![vec![json!(1)], vec![json!(2)], vec![json!(-3)], vec![json!(4)]];
    let t0 = 1_700_000_000i64;
    vec![
        ("neq-on-flushed-rows", "layouts", serde_json::to_value(simple_case(vec![("x", FT::Int)], ints.clone(), vec![vec![json!(5)]], cmp("x", Cmp::Neq, Lit::Int(2)))).unwrap()),
        ("not-eq-shares-zone", "layouts", serde_json::to_value(simple_case(vec![("x", FT::Int)], ints.clone(), vec![vec![json!(5)]], WExpr::Not(Box::new(cmp("x", Cmp::Eq, Lit::Int(2)))))).unwrap()),
        ("string-neq", "layouts", serde_json::to_value(simple_case(vec![("s", FT::Str)], vec![vec![json!("a")], vec![json!("b")], vec![json!("c")]], vec![], cmp("s", Cmp::Neq, Lit::Str("a".into())))).unwrap()),
        ("or-of-scanned-and-indexed-filter", "layouts", serde_json::to_value(simple_case(vec![("x", FT::Int)], ints.clone(), vec![], WExpr::Or(Box::new(cmp("x", Cmp::Neq, Lit::Int(77))), Box::new(cmp("x", Cmp::Eq, Lit::Int(4)))))).unwrap()),
        ("time-neq", "layouts", serde_json::to_value(simple_case(vec![("t", FT::Datetime)], vec![vec![json!(t0)], vec![json!(t0)], vec![json!(t0 + 1800)]], vec![], cmp("t", Cmp::Neq, Lit::Int(t0)))).unwrap()),
        ("enum-neq-unknown-variant", "layouts", serde_json::to_value(simple_case(vec![("e", FT::Enum(vec!["v0".into(), "v1".into()]))], vec![vec![json!("v0")], vec![json!("v1")], vec![json!("v0")]], vec![], cmp("e", Cmp::Neq, Lit::Str("V0".into())))).unwrap()),
    ]
}


/// Open finding classes of C02 over WHERE expressions, for other properties that embed a WHERE.
#[derive(Clone, Copy)]
pub struct WhereExcl {
    pub float: bool,
    pub int_on_float: bool,
    pub neg_u64: bool,
    pub bool_col: bool,
    pub numstr: bool,
    pub opt: bool,
}

impl WhereExcl {
    pub fn from_ctx_any(ctx: &Ctx) -> WhereExcl {
        WhereExcl {
            float: ctx.open_any("where.float_literal"),
            int_on_float: ctx.open_any("where.int_lit_on_float_col"),
            neg_u64: ctx.open_any("where.neg_lit_on_u64_col"),
            bool_col: ctx.open_any("where.bool_col"),
            numstr: ctx.open_any("where.numeric_looking_string_literal"),
            opt: ctx.open_any("where.optional_field"),
        }
    }
    pub fn excluded(&self, td: &TypeDef, w: &WExpr) -> bool {
        let fty = |f: &str| td.field(f).map(|x| x.ty.clone());
        (self.float && w.any_lit(&|_, l| matches!(l, Lit::Float(_))))
            || (self.int_on_float && w.any_lit(&|f, l| matches!(l, Lit::Int(_)) && fty(f) == Some(FT::Float)))
            || (self.neg_u64 && w.any_lit(&|f, l| matches!(l, Lit::Int(i) if *i < 0) && fty(f) == Some(FT::U64)))
            || (self.bool_col && w.any_lit(&|f, _| fty(f) == Some(FT::Bool)))
            || (self.opt && w.any_lit(&|f, _| td.field(f).map(|x| x.opt).unwrap_or(false)))
            || (self.numstr
                && w.any_lit(&|f, l| {
                    matches!(fty(f), Some(FT::Str) | Some(FT::Enum(_)))
                        && match l {
                            Lit::Str(s) | Lit::Word(s) => s.trim().parse::<i128>().is_ok() || norm_time(&json!(s)).is_some(),
                            _ => true,
                        }
                }))
    }
}
