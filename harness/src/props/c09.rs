//! C09 - aggregates equal a fold over the events the selection would return.

use crate::db::DbConfig;
use crate::fw::*;
use crate::hist::*;
use crate::props::c02::problem_verdict;
use crate::query::*;
use proptest::prelude::*;
use serde::{Deserialize, Serialize};
use serde_json::{Value, json};
use std::collections::{BTreeMap, BTreeSet};
use std::sync::Mutex;

#[derive(Clone, Debug, Serialize, Deserialize, PartialEq)]
pub enum Agg {
    Count,
    CountField(String),
    CountUnique(String),
    Total(String),
    Avg(String),
    Min(String),
    Max(String),
}

impl Agg {
    fn print(&self) -> String {
        match self {
            Agg::Count => "COUNT".into(),
            Agg::CountField(f) => format!("COUNT {}", f),
            Agg::CountUnique(f) => format!("COUNT UNIQUE {}", f),
            Agg::Total(f) => format!("TOTAL {}", f),
            Agg::Avg(f) => format!("AVG {}", f),
            Agg::Min(f) => format!("MIN {}", f),
            Agg::Max(f) => format!("MAX {}", f),
        }
    }
    fn column(&self) -> String {
        match self {
            Agg::Count => "count".into(),
            Agg::CountField(f) => format!("count_{}", f),
            Agg::CountUnique(f) => format!("count_unique_{}", f),
            Agg::Total(f) => format!("total_{}", f),
            Agg::Avg(f) => format!("avg_{}", f),
            Agg::Min(f) => format!("min_{}", f),
            Agg::Max(f) => format!("max_{}", f),
        }
    }
    fn field(&self) -> Option<&str> {
        match self {
            Agg::Count => None,
            Agg::CountField(f) | Agg::CountUnique(f) | Agg::Total(f) | Agg::Avg(f) | Agg::Min(f) | Agg::Max(f) => Some(f),
        }
    }
}

#[derive(Clone, Debug, Serialize, Deserialize)]
pub struct AQ {
    pub aggs: Vec<Agg>,
    pub by: Vec<String>,
    /// HOUR / DAY / WEEK / MONTH / YEAR over the payload datetime field t
    pub per: Option<String>,
    pub wh: Option<WExpr>,
    pub ctx: Option<usize>,
    pub limit: Option<u32>,
    /// SINCE <bound> USING t (the payload datetime field), bound = 1_700_000_000 + n * 1800; only without PER
    #[serde(default)]
    pub since_t: Option<i64>,
}

impl AQ {
    fn since(&self) -> String {
        match (self.since_t, &self.per) {
            (Some(n), None) => format!(" SINCE \"{}\" USING t", 1_700_000_000i64 + n * 1800),
            _ => String::new(),
        }
    }
    fn selection(&self, td: &TypeDef) -> String {
        let mut s = format!("QUERY {}", td.name);
        if let Some(c) = self.ctx {
            s.push_str(&format!(" FOR {}", ctx_name(c)));
        }
        s.push_str(&self.since());
        if let Some(w) = &self.wh {
            s.push_str(&format!(" WHERE {}", w.print()));
        }
        s
    }
    fn aggregate(&self, td: &TypeDef) -> String {
        let mut s = format!("QUERY {}", td.name);
        if let Some(c) = self.ctx {
            s.push_str(&format!(" FOR {}", ctx_name(c)));
        }
        s.push_str(&self.since());
        if let Some(w) = &self.wh {
            s.push_str(&format!(" WHERE {}", w.print()));
        }
        s.push(' ');
        s.push_str(&self.aggs.iter().map(|a| a.print()).collect::<Vec<_>>().join(", "));
        if let Some(p) = &self.per {
            s.push_str(&format!(" PER {} USING t", p));
        }
        if !self.by.is_empty() {
            s.push_str(&format!(" BY {}", self.by.join(", ")));
        }
        if let Some(l) = self.limit {
            s.push_str(&format!(" LIMIT {}", l));
        }
        s
    }
}

#[derive(Clone, Debug, Serialize, Deserialize)]
pub struct Case {
    pub cfg: DbConfig,
    pub td: TypeDef,
    pub n_ctx: usize,
    pub ops: Vec<Op>,
    pub tail: Vec<Op>,
    pub queries: Vec<AQ>,
}

pub fn agg_typedef() -> TypeDef {
    let f = |n: &str, ty: FT, opt: bool| FieldDef { name: n.into(), alias: aliases(&ty)[0].to_string(), ty, opt };
    TypeDef {
        name: "ev".into(),
        fields: vec![
            f("x", FT::Int, false),
            f("y", FT::Int, false),
            f("f", FT::Float, false),
            f("e", FT::Enum(vec!["v0".into(), "v1".into(), "v2".into()]), false),
            f("s", FT::Str, false),
            f("o", FT::Int, true),
            f("t", FT::Datetime, false),
        ],
    }
}

#[derive(Clone, Copy)]
struct Excl {
    float_field: bool,
    count_unique: bool,
    nullable: bool,
    special: bool,
    limit: bool,
    per: bool,
    min_max_string: bool,
    empty_key: bool,
    /// C01's open findings (WAL / segment id drift) duplicate events across a restart; aggregates expose it
    no_restart: bool,
}

fn case_strategy(tier: Tier, ex: Excl, wx: crate::props::c02::WhereExcl) -> BoxedStrategy<Case> {
    let td = agg_typedef();
    (cfg_strategy(3), 2usize..=4)
        .prop_flat_map(move |(cfg, n_ctx)| {
            let td = td.clone();
            let ev = (0..n_ctx, -3i64..5, 0i64..3, prop::sample::select(vec![-2.5f64, -0.5, 0.0, 0.25, 1.5, 2.0, 3.0]), 0usize..3, prop::sample::select(if ex.empty_key { vec!["a", "b", "c", "zz"] } else { vec!["a", "b", "", "zz"] }), prop::option::weighted(0.7, -2i64..4), 0i64..6, 0i64..3)
                .prop_map(|(ctx, x, y, f, e, s, o, th, td_)| Ev {
                    ty: 0,
                    ctx,
                    vals: vec![json!(x), json!(y), json!(f), json!(format!("v{}", e)), json!(s), o.map(|v| json!(v)).unwrap_or(Value::Null), json!(1_700_000_000i64 + th * 1800 + td_ * 86_400 * 20)],
                });
            let op = prop_oneof![30 => ev.prop_map(Op::Store), 2 => Just(Op::Flush), 2 => Just(Op::Barrier), 2 => (1u8..=2).prop_map(Op::Compact)];
            let ops = prop::collection::vec(op, 8..=tier.pick(50, 90));
            let tail = prop::collection::vec(prop_oneof![3 => Just(Op::Flush), 2 => (1u8..=2).prop_map(Op::Compact), 2 => Just(if ex.no_restart { Op::Barrier } else { Op::Restart })], 1..=2);
            let num_fields: Vec<&'static str> = if ex.float_field { vec!["x", "y", "o"] } else { vec!["x", "y", "f", "o"] };
            // (the open finding about nullable fields concerns a null BY key; nullable metric inputs stay generated)
            let any_fields: Vec<&'static str> = {
                let mut v = num_fields.clone();
                v.push("e");
                v.push("s");
                v
            };
            let nf = num_fields.clone();
            let af = any_fields.clone();
            let agg = prop_oneof![
                3 => Just(Agg::Count),
                2 => prop::sample::select(af.clone()).prop_map(|f| Agg::CountField(f.to_string())),
                // open finding: COUNT UNIQUE over a NUMERIC field does not count distinct values; over text and enum fields it does
                // (probed by hand), so those stay generated while the finding is open
                2 => prop::sample::select(if ex.count_unique { vec!["e", "s"] } else { af.clone() }).prop_map(|f| Agg::CountUnique(f.to_string())),
                2 => prop::sample::select(nf.clone()).prop_map(|f| Agg::Total(f.to_string())),
                2 => prop::sample::select(nf.clone()).prop_map(|f| Agg::Avg(f.to_string())),
                2 => prop::sample::select(if ex.min_max_string { nf.clone() } else { af.clone() }).prop_map(|f| Agg::Min(f.to_string())),
                2 => prop::sample::select(if ex.min_max_string { nf.clone() } else { af.clone() }).prop_map(|f| Agg::Max(f.to_string())),
            ];
            // (BY over the nullable field `o` is generated although the finding about null BY keys is open: run_case leaves
            // the null-key groups out of the comparison while it is)
            let by_fields: Vec<&'static str> = vec!["e", "s", "x", "y", "o"];
            let wh = where_strategy(&TypeDef { name: "ev".into(), fields: td.fields.iter().filter(|f| f.name == "x" || f.name == "y" || f.name == "e").cloned().collect() }, 2);
            let q = (
                prop::collection::vec(agg, 1..=3),
                prop::collection::vec(prop::sample::select(by_fields), 0..=2),
                opt_w(if ex.per { 0.0 } else { 0.3 }, prop::sample::select(vec!["HOUR", "DAY", "WEEK", "MONTH", "YEAR"])),
                prop::option::weighted(0.4, wh),
                opt_w(if ex.special { 0.0 } else { 0.3 }, 0..n_ctx),
                opt_w(if ex.limit { 0.0 } else { 0.2 }, 1u32..4),
                opt_w(if ex.special { 0.0 } else { 0.3 }, 0i64..6),
            )
                .prop_map(|(mut aggs, mut by, per, wh, ctx, limit, since_t)| {
                    aggs.dedup();
                    let mut seen = BTreeSet::new();
                    aggs.retain(|a| seen.insert(a.column()));
                    by.sort();
                    by.dedup();
                    AQ { aggs, by: by.into_iter().map(|s| s.to_string()).collect(), per: per.map(|s| s.to_string()), wh, ctx, limit, since_t }
                });
            (Just(cfg), Just(td), Just(n_ctx), ops, tail, prop::collection::vec(q, 5..=tier.pick(12, 20)))
        })
        .prop_map(move |(cfg, td, n_ctx, ops, tail, mut queries)| {
            for q in queries.iter_mut() {
                if q.wh.as_ref().map(|w| wx.excluded(&td, w)).unwrap_or(false) {
                    q.wh = None;
                }
            }
            Case { cfg, td, n_ctx, ops, tail, queries }
        })
        .boxed()
}

fn bucket_of(ts: i64, gran: &str) -> i64 {
    use chrono::{Datelike, TimeZone, Utc};
    let dt = Utc.timestamp_opt(ts, 0).single().unwrap();
    match gran {
        "HOUR" => ts - ts.rem_euclid(3600),
        "DAY" => ts - ts.rem_euclid(86_400),
        "WEEK" => {
            let day = ts - ts.rem_euclid(86_400);
            day - (dt.weekday().num_days_from_monday() as i64) * 86_400
        }
        "MONTH" => Utc.with_ymd_and_hms(dt.year(), dt.month(), 1, 0, 0, 0).single().unwrap().timestamp(),
        _ => Utc.with_ymd_and_hms(dt.year(), 1, 1, 0, 0, 0).single().unwrap().timestamp(),
    }
}

fn key_str(v: &Value) -> String {
    match v {
        Value::String(s) => s.clone(),
        Value::Null => "".into(),
        other => other.to_string(),
    }
}

fn as_num(v: &Value) -> Option<f64> {
    match v {
        Value::Number(n) => n.as_f64(),
        Value::String(s) => s.parse::<f64>().ok(),
        _ => None,
    }
}

fn close(a: f64, b: f64) -> bool {
    (a - b).abs() <= 1e-9 * a.abs().max(b.abs()).max(1.0)
}

static EXCL: Mutex<Option<Excl>> = Mutex::new(None);
/// open finding: events whose BY field is null land in no group. While it is open the null-key groups are left out of the
/// comparison (expected and reported); every other group of a BY over a nullable field is judged
static NULL_GROUPS_UNJUDGED: std::sync::atomic::AtomicBool = std::sync::atomic::AtomicBool::new(false);

fn run_case(c: &Case, rep: &mut CaseReport) -> Verdict {
    let types = vec![c.td.clone()];
    let mut w = match World::start("c09", &c.cfg, &types, false) {
        Ok(w) => w,
        Err(e) => {
            rep.inconclusive = Some(format!("start: {:?}", e));
            return Verdict::Discard("start failed".into());
        }
    };
    for op in &c.ops {
        if let Err(e) = w.apply(op) {
            return problem_verdict(e, &mut w, rep);
        }
    }
    let fidx = |name: &str| c.td.fields.iter().position(|f| f.name == name);
    for ci in 0..=c.tail.len() {
        if ci > 0 {
            if let Err(e) = w.apply(&c.tail[ci - 1]) {
                return problem_verdict(e, &mut w, rep);
            }
        }
        if let Err(e) = w.db.barrier() {
            return problem_verdict(Problem::Db(e), &mut w, rep);
        }
        if w.id_reused && crate::props::c02::KNOWN_ID_REUSE.load(std::sync::atomic::Ordering::Relaxed) {
            rep.excluded_known += 1;
            return Verdict::Discard("known: retired segment id re-created in the same process lifetime".into());
        }
        let layout = w.layout_labels();
        for l in &layout {
            rep.label(l.clone());
        }
        let tiers = layout.iter().filter(|l| l.starts_with("layout:l") || *l == "layout:mem").count();
        for q in &c.queries {
            // the selection, on the same state
            let sel = q.selection(&c.td);
            let rs = match w.db.cmd(&sel) {
                Ok(r) => r,
                Err(e) => return problem_verdict(Problem::Db(e), &mut w, rep),
            };
            if rs.is_error() {
                continue; // selection itself unusable (judged by C02)
            }
            let selected: Vec<&MEv> = ks_of(&rs).iter().filter_map(|k| w.model.events.iter().find(|e| e.k == *k)).collect();
            let agg = q.aggregate(&c.td);
            let ra = match w.db.cmd(&agg) {
                Ok(r) => r,
                Err(e) => return problem_verdict(Problem::Db(e), &mut w, rep),
            };
            rep.sub_evals += 1;
            if !ra.panics.is_empty() {
                return Verdict::fail("panic", json!({"cmd": agg, "panics": ra.panics, "log": w.db.log}));
            }
            if selected.is_empty() {
                continue;
            }
            if ra.is_error() || !ra.streamed {
                return Verdict::fail("error-response", json!({"cmd": agg, "status": ra.status, "message": ra.message, "parse_error": ra.parse_error, "log": w.db.log}));
            }
            // expected groups
            let mut groups: BTreeMap<Vec<String>, Vec<&MEv>> = BTreeMap::new();
            for e in &selected {
                let mut key = vec![];
                if let Some(g) = &q.per {
                    let ts = e.vals[fidx("t").unwrap()].as_i64().unwrap_or(0);
                    key.push(bucket_of(ts, g).to_string());
                }
                for b in &q.by {
                    key.push(key_str(&e.vals[fidx(b).unwrap()]));
                }
                groups.entry(key).or_default().push(e);
            }
            let null_keys: Vec<Vec<String>> = if NULL_GROUPS_UNJUDGED.load(std::sync::atomic::Ordering::Relaxed) {
                let off = if q.per.is_some() { 1 } else { 0 };
                groups
                    .iter()
                    .filter(|(_, evs)| q.by.iter().any(|b| evs[0].vals[fidx(b).unwrap()].is_null()))
                    .map(|(k, _)| k.clone())
                    .inspect(|k| debug_assert!(k.len() >= off))
                    .collect()
            } else {
                vec![]
            };
            for k in &null_keys {
                groups.remove(k);
                rep.excluded_known += 1;
            }
            // reported groups
            let mut key_cols: Vec<usize> = vec![];
            if q.per.is_some() {
                match ra.col("bucket") {
                    Some(i) => key_cols.push(i),
                    None => return Verdict::fail("missing-column", json!({"cmd": agg, "column": "bucket", "columns": ra.columns, "log": w.db.log})),
                }
            }
            for b in &q.by {
                match ra.col(b) {
                    Some(i) => key_cols.push(i),
                    None => return Verdict::fail("missing-column", json!({"cmd": agg, "column": b, "columns": ra.columns, "log": w.db.log})),
                }
            }
            let mut reported: BTreeMap<Vec<String>, &Vec<Value>> = BTreeMap::new();
            for row in &ra.rows {
                let key: Vec<String> = key_cols.iter().map(|i| key_str(&row[*i])).collect();
                if reported.insert(key.clone(), row).is_some() {
                    return Verdict::fail("group-reported-twice", json!({"cmd": agg, "group": key, "rows": ra.rows, "log": w.db.log}));
                }
            }
            for k in &null_keys {
                reported.remove(k);
            }
            let detail = |why: &str, extra: Value| {
                json!({"why": why, "cmd": agg, "selection_cmd": sel, "layout": layout, "extra": extra, "reported": ra.rows, "columns": ra.columns,
                       "selected": selected.iter().map(|e| json!({"k": e.k, "ctx": e.ctx, "vals": e.vals})).collect::<Vec<_>>(), "log": w.db.log})
            };
            match q.limit {
                None => {
                    let rk: BTreeSet<&Vec<String>> = reported.keys().collect();
                    let ek: BTreeSet<&Vec<String>> = groups.keys().collect();
                    if rk != ek {
                        let missing: Vec<&&Vec<String>> = ek.difference(&rk).collect();
                        let extra: Vec<&&Vec<String>> = rk.difference(&ek).collect();
                        return Verdict::fail("groups-differ", detail("group keys", json!({"missing": missing, "extra": extra})));
                    }
                }
                Some(n) => {
                    if reported.keys().any(|k| !groups.contains_key(k)) {
                        return Verdict::fail("limit:unknown-group", detail("group not among the expected ones", json!(null)));
                    }
                    if reported.len() != (n as usize).min(groups.len()) {
                        return Verdict::fail("limit:group-count", detail("number of groups", json!({"reported": reported.len(), "expected": (n as usize).min(groups.len())})));
                    }
                }
            }
            for (key, row) in &reported {
                let evs = &groups[key];
                for a in &q.aggs {
                    let Some(ci2) = ra.col(&a.column()) else {
                        return Verdict::fail("missing-column", json!({"cmd": agg, "column": a.column(), "columns": ra.columns, "log": w.db.log}));
                    };
                    let got = &row[ci2];
                    let vals: Vec<&Value> = match a.field() {
                        Some(f) => evs.iter().map(|e| &e.vals[fidx(f).unwrap()]).filter(|v| !v.is_null()).collect(),
                        None => vec![],
                    };
                    let nums: Vec<f64> = vals.iter().filter_map(|v| v.as_f64()).collect();
                    let ok = match a {
                        Agg::Count => got.as_i64() == Some(evs.len() as i64),
                        Agg::CountField(_) => got.as_i64() == Some(vals.len() as i64),
                        Agg::CountUnique(_) => {
                            let d: BTreeSet<String> = vals.iter().map(|v| key_str(v)).collect();
                            got.as_i64() == Some(d.len() as i64)
                        }
                        Agg::Total(_) => as_num(got).map(|g| close(g, nums.iter().sum())).unwrap_or(false),
                        Agg::Avg(_) => {
                            if nums.is_empty() {
                                true
                            } else {
                                as_num(got).map(|g| close(g, nums.iter().sum::<f64>() / nums.len() as f64)).unwrap_or(false)
                            }
                        }
                        Agg::Min(_) | Agg::Max(_) => {
                            if vals.is_empty() {
                                true
                            } else if nums.len() == vals.len() {
                                let e = if matches!(a, Agg::Min(_)) { nums.iter().cloned().fold(f64::INFINITY, f64::min) } else { nums.iter().cloned().fold(f64::NEG_INFINITY, f64::max) };
                                as_num(got).map(|g| close(g, e)).unwrap_or(false)
                            } else {
                                let ss: Vec<String> = vals.iter().map(|v| key_str(v)).collect();
                                let e = if matches!(a, Agg::Min(_)) { ss.iter().min().unwrap() } else { ss.iter().max().unwrap() };
                                key_str(got) == *e
                            }
                        }
                    };
                    if !ok {
                        return Verdict::fail(format!("metric:{}", a.print().split(' ').next().unwrap_or("").to_lowercase() + if matches!(a, Agg::CountUnique(_)) { "-unique" } else { "" }), detail("metric value", json!({"group": key, "metric": a.print(), "got": got, "group_values": vals})));
                    }
                    if got.is_string() && as_num(got).is_some() {
                        rep.label("repr:numeric-metric-as-string");
                    }
                }
            }
            if groups.len() >= 2 && (tiers >= 2 || c.cfg.shard_count >= 2) {
                rep.nontrivial = true;
            }
            if q.per.is_some() {
                rep.label("q:per");
            }
            if !q.by.is_empty() {
                rep.label("q:by");
            }
            if q.limit.is_some() {
                rep.label("q:limit");
            }
        }
    }
    rep.sample = Some(json!({"config": {"shards": c.cfg.shard_count, "event_per_zone": c.cfg.event_per_zone, "fill_factor": c.cfg.fill_factor}, "events": w.model.events.len(), "tail": c.tail,
        "queries": c.queries.iter().take(4).map(|q| q.aggregate(&c.td)).collect::<Vec<_>>()}));
    if !w.db.panics.is_empty() {
        return Verdict::fail("panic-in-worker", json!({"panics": w.db.panics, "log": w.db.log}));
    }
    Verdict::Pass
}

pub fn replay(_check: &str, case: &Value) -> Verdict {
    match serde_json::from_value::<Case>(case.clone()) {
        Ok(c) => run_case(&c, &mut CaseReport::default()),
        Err(e) => Verdict::Discard(format!("bad case: {}", e)),
    }
}

pub fn run(ctx: &Ctx) -> i32 {
    let stats = Mutex::new(Stats::default());
    let mut report = Report::new(
        "C09",
        "exploration",
        "generated (config, events over int / float / enum / string / nullable int / datetime fields, FLUSH / compaction / restart layouts, 5-20 aggregate queries: COUNT, COUNT f, COUNT UNIQUE f, TOTAL, AVG, MIN, MAX, BY 0-2 fields, PER HOUR..YEAR USING t, WHERE, FOR, LIMIT); each aggregate table is recomputed from the rows that the same query without aggregation returns on the same state: same groups (each selected event in exactly one), every metric equal (AVG/TOTAL within 1e-9), LIMIT only caps the number of groups. Non-trivial: >= 2 groups with the data spread over >= 2 tiers or >= 2 shards.",
    );
    report.assumptions = vec!["metric values are compared numerically whatever their JSON representation (a numeric string is parsed); bucket keys are computed with chrono in UTC with Monday week start (other calendars: C16)".into()];
    replay_known(ctx, &stats, &mut report, &replay);
    replay_regressions(ctx, &stats, &mut report, &replay);
    let ex = Excl {
        float_field: ctx.open("agg.float_field"),
        count_unique: ctx.open("agg.count_unique"),
        nullable: ctx.open("agg.nullable_field"),
        special: ctx.open("agg.special_fields_skipped"),
        limit: ctx.open("agg.limit"),
        per: ctx.open("agg.per"),
        min_max_string: ctx.open("agg.min_max_string"),
        empty_key: ctx.open("agg.empty_string_group_key"),
        no_restart: ctx.open_any("crash.after_manual_flush_or_clean_restart") || ctx.open_any("crash.store_after_compaction_and_restart"),
    };
    *EXCL.lock().unwrap() = Some(ex);
    NULL_GROUPS_UNJUDGED.store(ex.nullable, std::sync::atomic::Ordering::Relaxed);
    crate::props::c02::KNOWN_ID_REUSE.store(ctx.open_any("layout.stale_cache_after_id_reuse"), std::sync::atomic::Ordering::Relaxed);
    let wx = crate::props::c02::WhereExcl::from_ctx_any(ctx);
    let cases = ctx.tier.pick(240, 1500);
    let tier = ctx.tier;
    if let Some(f) = explore(ctx, "aggregates", || case_strategy(tier, ex, wx), Explore { cases, max_shrink_iters: ctx.tier.pick(100, 400), lanes: ctx.lanes }, &stats, run_case) {
        report.violations.push(f);
    }
    finish(ctx, stats.into_inner().unwrap(), report)
}
