//! C17 - parsing and dispatch are total; the parser preserves structure.

use crate::db::{CaseDir, Db, DbConfig, DbError};
use crate::fw::*;
use proptest::prelude::*;
use serde::{Deserialize, Serialize};
use serde_json::{Value, json};
use snel_db::command::parser::parse_command;
use snel_db::command::types::{AggSpec, Command, CompareOp, EventSequence, EventTarget, Expr, OrderSpec, SequenceLink, TimeGranularity};
use std::sync::Mutex;

const KEYWORDS: &[&str] = &[
    "query", "find", "for", "since", "using", "time", "return", "where", "and", "or", "not", "in", "count", "unique", "total", "avg", "min", "max", "per", "by", "limit", "offset", "order", "asc", "desc", "followed", "preceded", "linked", "hour", "day", "week", "month", "year", "as", "true", "false",
];

pub static KEYWORD_PREFIX_EXCLUDED: std::sync::atomic::AtomicBool = std::sync::atomic::AtomicBool::new(false);

fn ident() -> BoxedStrategy<String> {
    "[a-z][a-z0-9_]{0,7}"
        .prop_filter("not a keyword", |s| {
            if KEYWORDS.contains(&s.as_str()) {
                return false;
            }
            if KEYWORD_PREFIX_EXCLUDED.load(std::sync::atomic::Ordering::Relaxed) {
                // open finding: an identifier whose leading letters spell a keyword (for0, by_x, in2)
                let letters: String = s.chars().take_while(|c| c.is_ascii_alphabetic()).collect();
                if letters.len() < s.len() && KEYWORDS.contains(&letters.as_str()) {
                    return false;
                }
            }
            true
        })
        .boxed()
}

#[derive(Clone, Debug, Serialize, Deserialize)]
pub enum Val {
    Str(String),
    Int(i64),
    /// decimal with the given number of thousandths
    Dec(i64),
}

impl Val {
    fn to_json(&self) -> Value {
        match self {
            Val::Str(s) => json!(s),
            Val::Int(i) => json!(i),
            Val::Dec(m) => json!(*m as f64 / 1000.0),
        }
    }
    fn print(&self) -> String {
        match self {
            Val::Str(s) => format!("\"{}\"", s),
            Val::Int(i) => i.to_string(),
            Val::Dec(m) => {
                let sign = if *m < 0 { "-" } else { "" };
                let a = m.unsigned_abs();
                format!("{}{}.{:03}", sign, a / 1000, a % 1000)
            }
        }
    }
}

#[derive(Clone, Debug, Serialize, Deserialize)]
pub enum E {
    Cmp(String, u8, Val),
    In(String, Vec<Val>),
    And(Box<E>, Box<E>),
    Or(Box<E>, Box<E>),
    Not(Box<E>),
}

const OPS: [(&str, CompareOp); 6] = [("=", CompareOp::Eq), ("!=", CompareOp::Neq), (">", CompareOp::Gt), (">=", CompareOp::Gte), ("<", CompareOp::Lt), ("<=", CompareOp::Lte)];

impl E {
    fn to_expr(&self) -> Expr {
        match self {
            E::Cmp(f, o, v) => Expr::Compare { field: f.clone(), op: OPS[*o as usize % 6].1.clone(), value: v.to_json() },
            E::In(f, vs) => Expr::In { field: f.clone(), values: vs.iter().map(|v| v.to_json()).collect() },
            E::And(a, b) => Expr::And(Box::new(a.to_expr()), Box::new(b.to_expr())),
            E::Or(a, b) => Expr::Or(Box::new(a.to_expr()), Box::new(b.to_expr())),
            E::Not(a) => Expr::Not(Box::new(a.to_expr())),
        }
    }
    /// fully parenthesised
    fn print_full(&self) -> String {
        match self {
            E::Cmp(f, o, v) => format!("{} {} {}", f, OPS[*o as usize % 6].0, v.print()),
            E::In(f, vs) => format!("{} IN ({})", f, vs.iter().map(|v| v.print()).collect::<Vec<_>>().join(", ")),
            E::And(a, b) => format!("({} AND {})", a.print_full(), b.print_full()),
            E::Or(a, b) => format!("({} OR {})", a.print_full(), b.print_full()),
            E::Not(a) => format!("NOT ({})", a.print_full()),
        }
    }
    /// parentheses only where precedence (NOT > AND > OR, AND/OR right-nested by the grammar) requires them
    fn print_min(&self, parent: u8, right_side: bool) -> String {
        // precedence: Or=1, And=2, Not=3, leaf=4
        match self {
            E::Cmp(..) | E::In(..) => self.print_full(),
            E::Not(a) => format!("NOT {}", a.print_min(3, false)),
            E::And(a, b) => {
                let s = format!("{} AND {}", a.print_min(3, false), b.print_min(2, true));
                if parent > 2 || (parent == 2 && !right_side) { format!("({})", s) } else { s }
            }
            E::Or(a, b) => {
                // the left operand of OR is an and_expr in the grammar: an AND there needs no parentheses (a AND b OR c), an OR does
                let s = format!("{} OR {}", a.print_min(1, false), b.print_min(1, true));
                if parent > 1 || (parent == 1 && !right_side) { format!("({})", s) } else { s }
            }
        }
    }
    fn depth(&self) -> usize {
        match self {
            E::Cmp(..) | E::In(..) => 1,
            E::Not(a) => 1 + a.depth(),
            E::And(a, b) | E::Or(a, b) => 1 + a.depth().max(b.depth()),
        }
    }
}

fn val() -> BoxedStrategy<Val> {
    prop_oneof![
        // (no backslash: the documentation defines no escape syntax for string literals)
        3 => "[ !#-\\[\\]-~]{0,10}".prop_map(Val::Str),
        1 => "\\PC{0,5}".prop_map(|s| Val::Str(s.replace('"', "'").replace('\\', "/"))),
        // characters whose upper / lower case form has another UTF-8 length (byte offsets computed on a case-folded copy go wrong)
        1 => prop::collection::vec(prop::sample::select(vec!["ı", "ΐ", "ﬁ", "İ", "ß", "ǰ", "ŉ", "a", " ", "Z"]), 1..6).prop_map(|v| Val::Str(v.concat())),
        3 => any::<i64>().prop_map(Val::Int),
        2 => (-1000i64..1000).prop_map(Val::Int),
        2 => (-9_000_000i64..9_000_000).prop_map(Val::Dec),
    ]
    .boxed()
}

fn field() -> BoxedStrategy<String> {
    prop_oneof![4 => ident(), 1 => (ident(), ident()).prop_map(|(a, b)| format!("{}.{}", a, b))].boxed()
}

fn expr(depth: u32) -> BoxedStrategy<E> {
    let leaf = prop_oneof![4 => (field(), 0u8..6, val()).prop_map(|(f, o, v)| E::Cmp(f, o, v)), 1 => (field(), prop::collection::vec(val(), 0..4)).prop_map(|(f, vs)| E::In(f, vs))];
    leaf.prop_recursive(depth, 16, 2, |inner| {
        prop_oneof![
            3 => (inner.clone(), inner.clone()).prop_map(|(a, b)| E::And(Box::new(a), Box::new(b))),
            3 => (inner.clone(), inner.clone()).prop_map(|(a, b)| E::Or(Box::new(a), Box::new(b))),
            2 => inner.prop_map(|a| E::Not(Box::new(a))),
        ]
    })
    .boxed()
}

#[derive(Clone, Debug, Serialize, Deserialize)]
pub struct QAst {
    pub find: bool,
    pub head: String,
    pub links: Vec<(bool, String)>,
    pub link_field: Option<String>,
    pub ctx: Option<(String, bool)>,
    pub since: Option<String>,
    pub using: Option<String>,
    pub using_time: Option<String>,
    pub ret: Option<Vec<(String, bool)>>,
    pub wh: Option<E>,
    pub aggs: Vec<(u8, Option<String>)>,
    pub per: Option<(u8, Option<String>)>,
    pub by: Option<(Vec<String>, Option<String>)>,
    pub limit: Option<u32>,
    pub offset: Option<u32>,
    pub order: Option<(String, Option<bool>)>,
    /// permutation seed for the clause order
    pub perm: Vec<u8>,
    /// 0 canonical, 1 minimal parentheses, 2 random keyword case, 3 extra whitespace / newlines, 4 redundant parentheses
    pub variant: u8,
    pub case_bits: u64,
    /// replace the LIMIT (even index) or OFFSET (odd index) literal by BIG[i / 2]: a number beyond the u32 range of these
    /// terminals, which the parser must reject (an accepted command would carry a different value than the text)
    #[serde(default)]
    pub oversize: Option<u8>,
    /// wrap the query as REMEMBER <query> AS <name> (the parsed command must carry the same query tree and the name)
    #[serde(default)]
    pub remember: Option<String>,
}

const BIG: [&str; 10] = ["4294967296", "4294967297", "8589934602", "99999999999", "9223372036854775807", "9223372036854775808", "18446744073709551615", "18446744073709551616", "340282366920938463463374607431768211456", "00000000000000000000004294967296"];

const GRANS: [(&str, TimeGranularity); 5] = [("HOUR", TimeGranularity::Hour), ("DAY", TimeGranularity::Day), ("WEEK", TimeGranularity::Week), ("MONTH", TimeGranularity::Month), ("YEAR", TimeGranularity::Year)];

fn qast() -> BoxedStrategy<QAst> {
    let part1 = (
        any::<bool>(),
        ident(),
        prop::collection::vec((any::<bool>(), ident()), 0..3),
        prop::option::weighted(0.3, ident()),
        prop::option::weighted(0.4, (prop_oneof![ident(), "[ !#-\\[\\]-~]{1,12}".prop_map(|s| s)], any::<bool>())),
        prop::option::weighted(0.3, "[ !#-\\[\\]-~]{0,20}"),
        prop::option::weighted(0.2, field()),
        prop::option::weighted(0.15, field()),
    );
    let part2 = (
        prop::option::weighted(0.4, prop::collection::vec((field(), any::<bool>()), 0..4)),
        prop::option::weighted(0.6, expr(4)),
        prop::collection::vec((0u8..7, prop::option::of(field())), 0..3),
        prop::option::weighted(0.2, (0u8..5, prop::option::weighted(0.3, field()))),
        prop::option::weighted(0.25, (prop::collection::vec(field(), 1..3), prop::option::weighted(0.2, field()))),
        prop::option::weighted(0.4, any::<u32>()),
        prop::option::weighted(0.2, any::<u32>()),
        prop::option::weighted(0.25, (field(), prop::option::of(any::<bool>()))),
        prop::collection::vec(any::<u8>(), 12),
        0u8..5,
        any::<u64>(),
        (crate::hist::opt_w(0.06, 0u8..20), crate::hist::opt_w(0.12, ident())),
    );
    (part1, part2)
        .prop_map(|((find, head, links, link_field, ctx, since, using, using_time), (ret, wh, aggs, per, by, limit, offset, order, perm, variant, case_bits, (oversize, remember)))| {
            // at most one source for the time field (USING f, PER .. USING f, BY .. USING f): the last one wins otherwise
            let mut using = using;
            let mut per = per;
            let mut by = by;
            if let Some((_, Some(_))) = &per {
                using = None;
                if let Some((_, u)) = by.as_mut() {
                    *u = None;
                }
            } else if let Some((_, Some(_))) = &by {
                using = None;
            }
            if per.is_none() {
                per = None;
            }
            QAst { find, head, links, link_field, ctx, since, using, using_time, ret, wh, aggs, per, by, limit, offset, order, perm, variant, case_bits, oversize, remember: if find { None } else { remember } }
        })
        .boxed()
}

fn agg_of(kind: u8, f: &Option<String>) -> (String, AggSpec) {
    let fld = f.clone().unwrap_or_else(|| "fx".to_string());
    match (kind % 7, f) {
        (0, _) | (_, None) => ("COUNT".to_string(), AggSpec::Count { unique_field: None }),
        (1, _) => (format!("COUNT UNIQUE {}", fld), AggSpec::Count { unique_field: Some(fld) }),
        (2, _) => (format!("COUNT {}", fld), AggSpec::CountField { field: fld }),
        (3, _) => (format!("TOTAL {}", fld), AggSpec::Total { field: fld }),
        (4, _) => (format!("AVG {}", fld), AggSpec::Avg { field: fld }),
        (5, _) => (format!("MIN {}", fld), AggSpec::Min { field: fld }),
        _ => (format!("MAX {}", fld), AggSpec::Max { field: fld }),
    }
}

/// (text, expected command)
pub fn render(q: &QAst) -> (String, Command) {
    let mut clauses: Vec<String> = vec![];
    let mut time_field = None;
    if let Some((c, quoted)) = &q.ctx {
        let is_ident = c.chars().next().map(|ch| ch.is_ascii_alphabetic() || ch == '_').unwrap_or(false) && c.chars().all(|ch| ch.is_ascii_alphanumeric() || ch == '_' || ch == '-') && !KEYWORDS.contains(&c.to_lowercase().as_str());
        clauses.push(if *quoted || !is_ident { format!("FOR \"{}\"", c) } else { format!("FOR {}", c) });
    }
    if let Some(s) = &q.since {
        clauses.push(format!("SINCE \"{}\"", s));
    }
    if let Some(u) = &q.using {
        clauses.push(format!("USING {}", u));
        time_field = Some(u.clone());
    }
    if let Some(u) = &q.using_time {
        clauses.push(format!("USING TIME {}", u));
    }
    if let Some(r) = &q.ret {
        clauses.push(format!("RETURN [{}]", r.iter().map(|(f, quoted)| if *quoted { format!("\"{}\"", f) } else { f.clone() }).collect::<Vec<_>>().join(", ")));
    }
    if let Some(l) = &q.link_field {
        clauses.push(format!("LINKED BY {}", l));
    }
    if let Some(w) = &q.wh {
        let body = match q.variant {
            1 => w.print_min(0, false),
            4 => format!("(({}))", w.print_full()),
            _ => w.print_full(),
        };
        clauses.push(format!("WHERE {}", body));
    }
    let mut aggs_spec = None;
    if !q.aggs.is_empty() {
        let rendered: Vec<(String, AggSpec)> = q.aggs.iter().map(|(k, f)| agg_of(*k, f)).collect();
        clauses.push(rendered.iter().map(|r| r.0.clone()).collect::<Vec<_>>().join(", "));
        aggs_spec = Some(rendered.into_iter().map(|r| r.1).collect::<Vec<_>>());
    }
    let mut time_bucket = None;
    if let Some((g, u)) = &q.per {
        let (name, tg) = &GRANS[*g as usize % 5];
        match u {
            Some(f) => {
                clauses.push(format!("PER {} USING {}", name, f));
                time_field = Some(f.clone());
            }
            None => clauses.push(format!("PER {}", name)),
        }
        time_bucket = Some(tg.clone());
    }
    let mut group_by = None;
    if let Some((fs, u)) = &q.by {
        match u {
            Some(f) => {
                clauses.push(format!("BY {} USING {}", fs.join(", "), f));
                time_field = Some(f.clone());
            }
            None => clauses.push(format!("BY {}", fs.join(", "))),
        }
        group_by = Some(fs.clone());
    }
    if let Some(l) = q.limit {
        clauses.push(format!("LIMIT {}", l));
    }
    if let Some(o) = q.offset {
        clauses.push(format!("OFFSET {}", o));
    }
    let mut order_by = None;
    if let Some((f, d)) = &q.order {
        clauses.push(match d {
            Some(true) => format!("ORDER BY {} DESC", f),
            Some(false) => format!("ORDER BY {} ASC", f),
            None => format!("ORDER BY {}", f),
        });
        order_by = Some(OrderSpec { field: f.clone(), desc: *d == Some(true) });
    }
    // clause order: a permutation driven by q.perm (an aggregate list must not be directly followed by a
    // clause that starts with an identifier-like continuation; the grammar separates them by keywords)
    let mut idx: Vec<usize> = (0..clauses.len()).collect();
    for i in (1..idx.len()).rev() {
        let j = q.perm[i % q.perm.len()] as usize % (i + 1);
        idx.swap(i, j);
    }
    // "PER g" / "BY f" take an optional trailing "USING f": a separate USING clause directly after them
    // would be read as that option, so USING clauses are never placed right after a PER / BY clause
    {
        let (mut using, rest): (Vec<usize>, Vec<usize>) = idx.iter().partition(|i| clauses[**i].starts_with("USING"));
        using.extend(rest);
        idx = using;
    }
    let mut text = String::new();
    text.push_str(if q.find { "FIND" } else { "QUERY" });
    text.push(' ');
    text.push_str(&q.head);
    for (pre, t) in &q.links {
        text.push_str(if *pre { " PRECEDED BY " } else { " FOLLOWED BY " });
        text.push_str(t);
    }
    for i in idx {
        text.push(' ');
        text.push_str(&clauses[i]);
    }
    let event_sequence = if q.links.is_empty() {
        None
    } else {
        Some(EventSequence {
            head: EventTarget { event: q.head.clone(), field: None },
            links: q.links.iter().map(|(pre, t)| (if *pre { SequenceLink::PrecededBy } else { SequenceLink::FollowedBy }, EventTarget { event: t.clone(), field: None })).collect(),
        })
    };
    let cmd = Command::Query {
        event_type: q.head.clone(),
        context_id: q.ctx.as_ref().map(|c| c.0.clone()),
        since: q.since.clone(),
        time_field,
        sequence_time_field: q.using_time.clone(),
        where_clause: q.wh.as_ref().map(|w| w.to_expr()),
        limit: q.limit,
        offset: q.offset,
        order_by,
        picked_zones: None,
        return_fields: q.ret.as_ref().map(|r| r.iter().map(|x| x.0.clone()).collect()),
        link_field: q.link_field.clone(),
        aggs: aggs_spec,
        time_bucket,
        group_by,
        event_sequence,
    };
    // surface variants that must not change the tree
    let text = match q.variant {
        2 => recase(&text, q.case_bits),
        3 => widen_spaces(&text, if q.case_bits & 1 == 0 { "  " } else { " \n\t " }),
        _ => text,
    };
    (text, cmd)
}

/// widen every blank outside string literals
fn widen_spaces(text: &str, with: &str) -> String {
    let mut out = String::new();
    let mut in_str = false;
    for ch in text.chars() {
        if ch == '"' {
            in_str = !in_str;
        }
        if ch == ' ' && !in_str { out.push_str(with) } else { out.push(ch) }
    }
    out
}

/// flip the case of keyword letters outside string literals (identifiers stay as they are)
fn recase(text: &str, bits: u64) -> String {
    let mut out = String::new();
    let mut in_str = false;
    let mut word = String::new();
    let mut n = 0u32;
    let flush = |word: &mut String, out: &mut String, n: &mut u32| {
        if !word.is_empty() {
            if KEYWORDS.contains(&word.to_lowercase().as_str()) && word.chars().all(|c| c.is_ascii_uppercase()) {
                for ch in word.chars() {
                    *n += 1;
                    if (bits >> (*n % 64)) & 1 == 1 { out.push(ch.to_ascii_lowercase()) } else { out.push(ch) }
                }
            } else {
                out.push_str(word);
            }
            word.clear();
        }
    };
    for ch in text.chars() {
        if in_str {
            out.push(ch);
            if ch == '"' {
                in_str = false;
            }
            continue;
        }
        if ch == '"' {
            flush(&mut word, &mut out, &mut n);
            in_str = true;
            out.push(ch);
        } else if ch.is_ascii_alphanumeric() || ch == '_' || ch == '-' || ch == '.' {
            word.push(ch);
        } else {
            flush(&mut word, &mut out, &mut n);
            out.push(ch);
        }
    }
    flush(&mut word, &mut out, &mut n);
    out
}

fn parse_guarded(text: &str) -> Result<Result<Command, String>, String> {
    let t = text.to_string();
    match std::panic::catch_unwind(move || parse_command(&t)) {
        Ok(Ok(c)) => Ok(Ok(c)),
        Ok(Err(e)) => Ok(Err(format!("{:?}", e))),
        Err(p) => Err(if let Some(s) = p.downcast_ref::<String>() { s.clone() } else if let Some(s) = p.downcast_ref::<&str>() { s.to_string() } else { "panic".into() }),
    }
}

fn run_roundtrip(q: &QAst, rep: &mut CaseReport) -> Verdict {
    let (text, expected) = render(q);
    rep.sub_evals += 1;
    rep.label(format!("variant:{}", q.variant));
    if let Some(w) = &q.wh {
        rep.label(format!("where-depth:{}", w.depth().min(6)));
    }
    if let Some(i) = q.oversize {
        // numeric terminal beyond its range: the only structure-preserving answers are an error or the same number
        let big = BIG[(i / 2) as usize % BIG.len()];
        let (kw, cur) = if i % 2 == 0 || q.offset.is_none() || q.limit.is_none() { ("LIMIT", q.limit) } else { ("OFFSET", q.offset) };
        let Some(cur) = cur else { return Verdict::Pass };
        let needle = format!("{} {}", kw, cur);
        // (keyword case / spacing variants may have changed the needle: only the canonical spelling is used)
        let Some(pos) = text.rfind(&needle) else { return Verdict::Pass };
        let big_text = format!("{}{} {}{}", &text[..pos], kw, big, &text[pos + needle.len()..]);
        rep.label("oversize-number");
        return match parse_guarded(&big_text) {
            Err(p) => Verdict::fail("parse-panic", json!({"text": big_text, "panic": p})),
            Ok(Err(_)) => {
                rep.nontrivial = true;
                Verdict::Pass
            }
            Ok(Ok(got)) => {
                let val = match &got {
                    Command::Query { limit, offset, .. } => if kw == "LIMIT" { limit.map(|v| v as u128) } else { offset.map(|v| v as u128) },
                    _ => None,
                };
                if val == big.parse::<u128>().ok() {
                    Verdict::Pass
                } else {
                    Verdict::fail("number-changed-by-parser", json!({"text": big_text, "terminal": kw, "literal": big, "parsed_as": val.map(|v| v.to_string())}))
                }
            }
        };
    }
    let (text, expected) = match &q.remember {
        Some(name) if text.trim_start().to_ascii_uppercase().starts_with("QUERY") => {
            rep.label("wrapped:remember");
            (format!("REMEMBER {} AS {}", text, name), Command::RememberQuery { spec: snel_db::command::types::MaterializedQuerySpec { name: name.clone(), query: Box::new(expected) } })
        }
        _ => (text, expected),
    };
    match parse_guarded(&text) {
        Err(p) => Verdict::fail("parse-panic", json!({"text": text, "panic": p})),
        Ok(Err(e)) => Verdict::fail("well-formed-command-rejected", json!({"text": text, "error": e})),
        Ok(Ok(got)) => {
            if got != expected {
                return Verdict::fail("tree-differs", json!({"text": text, "got": format!("{:?}", got), "expected": format!("{:?}", expected)}));
            }
            rep.nontrivial = true;
            if rep.sample.is_none() {
                rep.sample = Some(json!({"text": text}));
            }
            Verdict::Pass
        }
    }
}

// ------------------------------------------------------------------ STORE round trip

/// a STORE command: type, context (bare word or quoted), JSON payload whose strings and keys carry the characters the payload
/// extraction has to skip correctly (escaped quotes, backslashes, braces, brackets, commas, colons, non-ASCII)
#[derive(Clone, Debug, Serialize, Deserialize)]
pub struct StoreCmd {
    pub ty: String,
    pub ctx: String,
    pub quoted_ctx: bool,
    pub payload: Value,
}

fn tricky_text() -> BoxedStrategy<String> {
    prop_oneof![
        3 => "[a-z0-9 ]{0,8}".prop_map(|s| s),
        4 => prop::collection::vec(prop::sample::select(vec!["\"", "\\", "{", "}", "[", "]", ",", ":", " ", "a", "z", "é", "東", "\n", "\t", "'", "PAYLOAD", "}\"", "\"{"]), 0..8).prop_map(|v| v.concat()),
    ]
    .boxed()
}

fn json_leaf() -> BoxedStrategy<Value> {
    prop_oneof![
        4 => tricky_text().prop_map(Value::String),
        2 => (-1000i64..1000).prop_map(|i| json!(i)),
        1 => prop::sample::select(vec![0.5f64, -2.25, 1e3, 1234.5]).prop_map(|f| json!(f)),
        1 => any::<bool>().prop_map(Value::Bool),
        1 => Just(Value::Null),
    ]
    .boxed()
}

fn store_cmd() -> BoxedStrategy<StoreCmd> {
    let value = json_leaf().prop_recursive(2, 8, 3, |inner| {
        prop_oneof![
            prop::collection::vec(inner.clone(), 0..3).prop_map(Value::Array),
            prop::collection::btree_map(tricky_text(), inner, 0..3).prop_map(|m| Value::Object(m.into_iter().collect())),
        ]
    });
    (ident(), prop_oneof![2 => ident().prop_map(|s| (s, false)), 1 => "[a-z0-9:._-]{1,10}".prop_map(|s| (s, true))], prop::collection::btree_map(tricky_text(), value, 0..4))
        .prop_map(|(ty, (ctx, quoted_ctx), m)| StoreCmd { ty, ctx, quoted_ctx, payload: Value::Object(m.into_iter().collect()) })
        .boxed()
}

fn run_store_roundtrip(c: &StoreCmd, rep: &mut CaseReport) -> Verdict {
    let ctx_txt = if c.quoted_ctx { format!("\"{}\"", c.ctx) } else { c.ctx.clone() };
    let text = format!("STORE {} FOR {} PAYLOAD {}", c.ty, ctx_txt, serde_json::to_string(&c.payload).unwrap_or_default());
    let expected = Command::Store { event_type: c.ty.clone(), context_id: c.ctx.clone(), payload: c.payload.clone() };
    rep.sub_evals += 1;
    let escapes = text.contains("\\\"") || text.contains("\\\\");
    if escapes {
        rep.label("store:escaped-quote-or-backslash-in-string");
    }
    match parse_guarded(&text) {
        Err(p) => Verdict::fail("parse-panic", json!({"text": text, "panic": p})),
        Ok(Err(e)) => Verdict::fail("well-formed-command-rejected", json!({"text": text, "error": e})),
        Ok(Ok(got)) => {
            if got != expected {
                return Verdict::fail("tree-differs", json!({"text": text, "got": format!("{:?}", got), "expected": format!("{:?}", expected)}));
            }
            if escapes || text.matches('{').count() > 1 {
                rep.nontrivial = true;
            }
            Verdict::Pass
        }
    }
}

// ------------------------------------------------------------------ totality on arbitrary / mutated input

#[derive(Clone, Debug, Serialize, Deserialize)]
pub struct Fuzzed {
    pub base: String,
    pub edits: Vec<(u16, u8, String)>,
}

const FRAGMENTS: &[&str] = &[
    "QUERY", "STORE", "DEFINE", "REPLAY", "FOR", "WHERE", "AND", "OR", "NOT", "IN", "(", ")", "((((", "))))", "\"", "{", "}", "[", "]", ",", "=", "!=", ">=", "<", "LIMIT", "OFFSET", "ORDER BY", "RETURN", "PAYLOAD", "FIELDS", "SINCE", "USING", "PER", "BY", "COUNT", "99999999999", "-1", "18446744073709551616", "9223372036854775808", "1e400", "0.0000000000000000000000001", "1.", ".5", "\u{0}", "\u{feff}", "é", "😀", "\\", "\n", "\t", "  ", "AS", "REMEMBER", "SHOW", "FLUSH", "PING", "BATCH", "CREATE USER", "GRANT", "REVOKE", "TOKEN", ":", ";", "null", "true",
    "FOLLOWED BY", "PRECEDED BY", "LINKED BY", "PLOT", "TOTAL", "OF", "BREAKDOWN", "OVER", "TOP", "COMPARE", "VS", "FILTER", "AVG", "UNIQUE",
];

pub fn corpus() -> Vec<String> {
    let mut v: Vec<String> = vec![
        "PING".into(),
        "FLUSH".into(),
        "DEFINE ev FIELDS { \"k\": \"int\", \"s\": \"string | null\", \"e\": [\"a\", \"b\"] }".into(),
        "DEFINE ev AS 2 FIELDS { id: \"int\" }".into(),
        "STORE ev FOR c1 PAYLOAD {\"k\": 1, \"s\": \"x\"}".into(),
        "STORE ev FOR \"user:ext:42\" PAYLOAD {\"k\": 1}".into(),
        "QUERY ev".into(),
        "QUERY ev FOR c1 SINCE \"2025-01-01T00:00:00Z\" USING t RETURN [k, \"s\"] WHERE (a = 1 OR b != \"x\") AND NOT c IN (1, 2, 3) LIMIT 10".into(),
        "QUERY ev COUNT, TOTAL x, AVG x, MIN x, MAX x, COUNT UNIQUE u PER DAY USING t BY a, b LIMIT 5".into(),
        "QUERY a FOLLOWED BY b LINKED BY u WHERE a.x = 1 AND b.y = \"z\" LIMIT 3".into(),
        "QUERY a PRECEDED BY b LINKED BY u".into(),
        "QUERY ev ORDER BY x DESC LIMIT 5 OFFSET 2".into(),
        "FIND ev WHERE x > 1.5".into(),
        "REPLAY FOR c1".into(),
        "REPLAY ev FOR c1 SINCE \"2025-01-01T00:00:00Z\" RETURN [k]".into(),
        "REMEMBER QUERY ev WHERE x = 1 AS m1".into(),
        "SHOW m1".into(),
        "CREATE USER u1".into(),
        "CREATE USER u1 WITH KEY \"secret\" WITH ROLES [\"admin\", viewer]".into(),
        "REVOKE KEY u1".into(),
        "LIST USERS".into(),
        "GRANT READ, WRITE ON ev, ev2 TO u1".into(),
        "REVOKE READ ON ev FROM u1".into(),
        "SHOW PERMISSIONS FOR u1".into(),
        "BATCH [ STORE ev FOR c1 PAYLOAD {\"k\":1}; STORE ev FOR c2 PAYLOAD {\"k\":2} ]".into(),
        "PLOT TOTAL amount OF orders BREAKDOWN BY country OVER DAY(created_at) TOP 5".into(),
        "PLOT COUNT OF orders VS COUNT OF payments OVER DAY".into(),
    ];
    // every command literal of the repository's documentation
    let docs = std::path::Path::new("/repo/docs/src/commands");
    if let Ok(rd) = std::fs::read_dir(docs) {
        let mut files: Vec<_> = rd.flatten().map(|e| e.path()).collect();
        files.sort();
        for p in files {
            if let Ok(t) = std::fs::read_to_string(&p) {
                let mut in_block = false;
                let mut cur = String::new();
                for line in t.lines() {
                    if line.starts_with("```sneldb") {
                        in_block = true;
                        cur.clear();
                        continue;
                    }
                    if line.starts_with("```") && in_block {
                        in_block = false;
                        if !cur.trim().is_empty() {
                            for cmd in cur.split("\n\n") {
                                let c = cmd.lines().filter(|l| !l.trim_start().starts_with('#')).collect::<Vec<_>>().join("\n");
                                if !c.trim().is_empty() && c.len() < 400 {
                                    v.push(c.trim().to_string());
                                }
                            }
                        }
                        continue;
                    }
                    if in_block {
                        cur.push_str(line);
                        cur.push('\n');
                    }
                }
            }
        }
    }
    v.sort();
    v.dedup();
    v
}

fn fuzzed_strategy(corp: Vec<String>) -> BoxedStrategy<Fuzzed> {
    let frag = prop::sample::select(FRAGMENTS.to_vec()).prop_map(|s| s.to_string());
    let edit = (any::<u16>(), 0u8..6, prop_oneof![
        2 => prop::sample::select(vec!["4294967295", "4294967296", "99999999999", "-1", "-0", "9223372036854775807", "9223372036854775808", "-9223372036854775809", "18446744073709551616", "1.5", "00", "1e5", "340282366920938463463374607431768211456", "0.1234567890123456789012345678901234567890"]).prop_map(|s| s.to_string()),3 => frag, 1 => "\\PC{0,4}".prop_map(|s| s), 1 => "[ -~]{0,6}".prop_map(|s| s)]);
    // non-ASCII bases: valid commands whose letters are replaced by 2-, 3- and 4-byte letters (optionally with a misspelt leading
    // keyword), and free text over a mixed-width alphabet: every byte offset of such a text is likely to fall inside a character
    let uni = (prop::sample::select(corp.clone()), any::<u64>(), any::<u64>(), 0u8..4).prop_map(|(b, bits, which, mode)| unicodify(&b, bits, which, mode));
    let wide = "[a-zA-Z0-9éжß東京Ω𝒳 \"{}:,=()\\[\\]]{0,200}".prop_map(|s| s);
    (prop_oneof![6 => prop::sample::select(corp), 2 => uni, 1 => wide, 1 => "[ -~]{0,80}".prop_map(|s| s), 1 => Just(String::new())], prop::collection::vec(edit, 0..5)).prop_map(|(base, edits)| Fuzzed { base, edits }).boxed()
}

/// replace ASCII lowercase letters by multi-byte letters where `bits` says so; mode 1/3 also misspell the leading keyword,
/// mode 2/3 pad the text beyond the usual short-input length
pub fn unicodify(base: &str, bits: u64, which: u64, mode: u8) -> String {
    const REPL: [char; 4] = ['é', 'ж', '東', '𝒳'];
    let mut out = String::new();
    if mode & 1 == 1 {
        out.push(['X', 'é', 'Q', 'ж'][(which & 3) as usize]);
    }
    let mut n = 0u32;
    let mut in_first_word = true;
    for ch in base.chars() {
        if ch.is_whitespace() {
            in_first_word = false;
        }
        if ch.is_ascii_lowercase() && !in_first_word {
            if (bits.rotate_left(n) & 1) == 1 {
                out.push(REPL[((which.rotate_left(2 * n)) & 3) as usize]);
            } else {
                out.push(ch);
            }
            n += 1;
        } else {
            out.push(ch);
        }
    }
    if mode & 2 == 2 {
        out.push(' ');
        for i in 0..(40 + (which >> 8) % 60) {
            out.push(if (bits.rotate_left(i as u32) & 1) == 1 { REPL[((which.rotate_left(i as u32)) & 3) as usize] } else { 'a' });
        }
    }
    out
}

pub fn apply_edits(f: &Fuzzed) -> String {
    let mut chars: Vec<char> = f.base.chars().collect();
    for (pos, kind, frag) in &f.edits {
        let p = if chars.is_empty() { 0 } else { (*pos as usize * (chars.len() + 1)) >> 16 };
        let fr: Vec<char> = frag.chars().collect();
        match kind {
            0 => {
                // insert
                let tail = chars.split_off(p.min(chars.len()));
                chars.extend(fr);
                chars.extend(tail);
            }
            1 => {
                // delete a few characters
                let end = (p + 1 + fr.len()).min(chars.len());
                if p < end {
                    chars.drain(p..end);
                }
            }
            2 => {
                // replace
                let end = (p + fr.len()).min(chars.len());
                if p <= end {
                    chars.splice(p.min(chars.len())..end, fr);
                }
            }
            3 => {
                // truncate
                chars.truncate(p);
            }
            _ => {
                // replace the digit run nearest to p (numeric terminals of the grammar)
                let n = chars.len();
                let mut best: Option<(usize, usize)> = None;
                let mut i = 0;
                while i < n {
                    if chars[i].is_ascii_digit() {
                        let st = i;
                        while i < n && chars[i].is_ascii_digit() {
                            i += 1;
                        }
                        let d = if p < st { st - p } else if p > i { p - i } else { 0 };
                        if best.map(|(bs, be)| { let bd = if p < bs { bs - p } else if p > be { p - be } else { 0 }; d < bd }).unwrap_or(true) {
                            best = Some((st, i));
                        }
                    } else {
                        i += 1;
                    }
                }
                if let Some((st, en)) = best {
                    chars.splice(st..en, fr);
                }
            }
        }
    }
    let s: String = chars.into_iter().collect();
    s.chars().take(512).collect()
}

/// one worker per lane for dispatch totality
thread_local! {
    static DISPATCH_DB: std::cell::RefCell<Option<(CaseDir, Db)>> = const { std::cell::RefCell::new(None) };
}

fn with_db<R>(f: impl FnOnce(&mut Db) -> R) -> Option<R> {
    DISPATCH_DB.with(|cell| {
        let mut g = cell.borrow_mut();
        let dead = g.as_ref().map(|(_, d)| !d.alive).unwrap_or(true);
        if dead {
            let case = CaseDir::new("c17");
            let mut cfg = DbConfig::default();
            cfg.event_per_zone = 4;
            match Db::open(&case.path, &cfg) {
                Ok(mut db) => {
                    db.watchdog = std::time::Duration::from_secs(20);
                    let _ = db.cmd("DEFINE ev FIELDS { \"k\": \"int\", \"s\": \"string | null\", \"x\": \"int | null\" }");
                    let _ = db.cmd("DEFINE orders FIELDS { \"amount\": \"float\", \"country\": \"string\", \"created_at\": \"datetime\" }");
                    // some rows on disk and some in memory, so that dispatched queries evaluate rows
                    for i in 0..6 {
                        let _ = db.cmd(&format!("STORE ev FOR c{} PAYLOAD {{\"k\": {}, \"s\": \"v{}\", \"x\": {}}}", i % 2, i, i % 3, i));
                        let _ = db.cmd(&format!("STORE orders FOR c{} PAYLOAD {{\"amount\": {}.5, \"country\": \"NL\", \"created_at\": {}}}", i % 2, i, 1_700_000_000 + i * 3600));
                        if i == 3 {
                            let _ = db.cmd("FLUSH");
                        }
                    }
                    *g = Some((case, db));
                }
                Err(_) => return None,
            }
        }
        g.as_mut().map(|(_, d)| f(d))
    })
}

pub static KNOWN_PANICS: Mutex<Vec<String>> = Mutex::new(Vec::new());

fn known_panic(msg: &str) -> bool {
    KNOWN_PANICS.lock().unwrap().iter().any(|k| k.split('|').any(|part| !part.is_empty() && msg.contains(part)))
}

fn run_fuzzed(f: &Fuzzed, rep: &mut CaseReport) -> Verdict {
    let text = apply_edits(f);
    rep.sub_evals += 1;
    let t0 = std::time::Instant::now();
    // parsing: in-process for speed (inputs are <= 512 chars, nesting is bounded by the length)
    let parsed = parse_guarded(&text);
    let ms = t0.elapsed().as_millis();
    if ms > 5000 {
        return Verdict::fail("parse-too-slow", json!({"text": text, "ms": ms as u64}));
    }
    match parsed {
        Err(p) => {
            if known_panic(&p) {
                rep.excluded_known += 1;
                return Verdict::Pass;
            }
            Verdict::fail("parse-panic", json!({"text": text, "panic": p}))
        }
        Ok(Err(_)) => {
            rep.label("parse:error");
            Verdict::Pass
        }
        Ok(Ok(_cmd)) => {
            rep.label("parse:ok");
            rep.nontrivial = true;
            // dispatch totality: every command the parser returns is answered, nothing panics
            let out = with_db(|db| {
                let mut r = db.cmd(&text);
                // a panic in a detached query task can be recorded just after the reply: collect stragglers
                if let Ok(resp) = r.as_mut() {
                    std::thread::sleep(std::time::Duration::from_millis(2));
                    if let Ok(p) = db.cmd("PING") {
                        resp.panics.extend(p.panics);
                    }
                }
                r
            });
            match out {
                None => {
                    rep.inconclusive = Some("could not start dispatch worker".into());
                    Verdict::Discard("no worker".into())
                }
                Some(Err(DbError::Timeout)) => Verdict::fail("dispatch-does-not-answer", json!({"text": text})),
                Some(Err(e)) => Verdict::fail("dispatch-killed-the-process", json!({"text": text, "error": e.to_string()})),
                Some(Ok(r)) => {
                    let panics: Vec<String> = r.panics.iter().filter(|p| !known_panic(p)).cloned().collect();
                    if r.dispatch_panic || r.parse_panic || !panics.is_empty() {
                        let all_known = !r.panics.is_empty() && panics.is_empty();
                        if all_known {
                            rep.excluded_known += 1;
                            return Verdict::Pass;
                        }
                        return Verdict::fail("dispatch-panic", json!({"text": text, "panics": r.panics}));
                    }
                    if r.empty_output && r.raw_b64.is_none() && r.parse_error.is_none() {
                        return Verdict::fail("no-response", json!({"text": text}));
                    }
                    if rep.sample.is_none() {
                        rep.sample = Some(json!({"text": text, "status": r.status}));
                    }
                    Verdict::Pass
                }
            }
        }
    }
}

// ------------------------------------------------------------------ termination (nesting family)

/// depth-d nesting families; every text is <= 256 bytes
pub fn nesting_family(d: usize) -> Vec<String> {
    let mut v = vec![];
    v.push(format!("QUERY ev WHERE {}a = 1{}", "(".repeat(d), ")".repeat(d)));
    v.push(format!("QUERY ev WHERE {}a = 1", "NOT ".repeat(d)));
    v.push(format!("QUERY ev WHERE {}", (0..d).map(|i| format!("a{} = {}", i % 9, i)).collect::<Vec<_>>().join(" OR ")));
    v.push(format!("QUERY ev WHERE {}", (0..d).map(|i| format!("a{} = {}", i % 9, i)).collect::<Vec<_>>().join(" AND ")));
    v.push(format!("QUERY ev WHERE {}a = 1{}", "(NOT ".repeat(d), ")".repeat(d)));
    // STORE payloads: unbalanced and balanced runs of braces / brackets (found by the libFuzzer target: 41 unbalanced
    // braces did not finish parsing within 20 minutes before the grammar rule was memoised)
    v.push(format!("STORE ev FOR c PAYLOAD {{\"k\": {}", "{".repeat(d)));
    v.push(format!("STORE ev FOR c PAYLOAD {{\"k\": {} 1 }}", "{".repeat(d)));
    v.push(format!("STORE ev FOR c PAYLOAD {{\"k\": {}1{}}}", "{\"a\":".repeat(d), "}".repeat(d)));
    v.push(format!("STORE ev FOR c PAYLOAD {{\"k\": {}1{}}}", "[".repeat(d), "]".repeat(d)));
    v.push(format!("STORE ev FOR c PAYLOAD {{\"k\": \"{}\"}}", "{".repeat(d)));
    v.into_iter().filter(|s| s.len() <= 256).collect()
}

fn termination_check(stats: &Mutex<Stats>, max_depth: usize) -> Option<Failure> {
    let case = CaseDir::new("c17t");
    let mut db = Db::open(&case.path, &DbConfig::default()).ok()?;
    db.watchdog = std::time::Duration::from_secs(30);
    for d in 1..=max_depth {
        for text in nesting_family(d) {
            stats.lock().unwrap().evaluations += 1;
            match db.req(json!({"op":"parse","line": text})) {
                Ok(v) => {
                    let us = v["us"].as_u64().unwrap_or(0);
                    if v["parse_panic"].as_bool() == Some(true) {
                        return Some(Failure { check: "termination".into(), sig: "parse-panic".into(), detail: json!({"text": text, "panics": v["panics"]}), case: json!({"text": text}) });
                    }
                    if us > 5_000_000 {
                        return Some(Failure { check: "termination".into(), sig: "parse-too-slow".into(), detail: json!({"text": text, "bytes": text.len(), "depth": d, "micros": us}), case: json!({"text": text}) });
                    }
                    let mut st = stats.lock().unwrap();
                    st.nontrivial.insert(fingerprint(&json!(text)));
                    let e = st.extra.entry("nesting_micros".to_string()).or_insert(json!({}));
                    if let Some(o) = e.as_object_mut() {
                        let cur = o.get(&d.to_string()).and_then(|x| x.as_u64()).unwrap_or(0);
                        o.insert(d.to_string(), json!(cur.max(us)));
                    }
                }
                Err(DbError::Timeout) => {
                    return Some(Failure { check: "termination".into(), sig: "parse-too-slow".into(), detail: json!({"text": text, "bytes": text.len(), "depth": d, "note": "no answer within 30 s"}), case: json!({"text": text}) });
                }
                Err(e) => {
                    return Some(Failure { check: "termination".into(), sig: "parser-killed-the-process".into(), detail: json!({"text": text, "error": e.to_string()}), case: json!({"text": text}) });
                }
            }
        }
    }
    None
}

pub fn replay(check: &str, case: &Value) -> Verdict {
    match check {
        "roundtrip" => match serde_json::from_value::<QAst>(case.clone()) {
            Ok(c) => run_roundtrip(&c, &mut CaseReport::default()),
            Err(e) => Verdict::Discard(format!("bad case: {}", e)),
        },
        "store-roundtrip" => match serde_json::from_value::<StoreCmd>(case.clone()) {
            Ok(c) => run_store_roundtrip(&c, &mut CaseReport::default()),
            Err(e) => Verdict::Discard(format!("bad case: {}", e)),
        },
        "termination" => {
            let text = case["text"].as_str().unwrap_or("").to_string();
            let cd = CaseDir::new("c17r");
            let Ok(mut db) = Db::open(&cd.path, &DbConfig::default()) else { return Verdict::Discard("no worker".into()) };
            db.watchdog = std::time::Duration::from_secs(30);
            match db.req(json!({"op":"parse","line": text})) {
                Ok(v) if v["parse_panic"].as_bool() == Some(true) => Verdict::fail("parse-panic", json!({"text": text, "panics": v["panics"]})),
                Ok(v) if v["us"].as_u64().unwrap_or(0) > 5_000_000 => Verdict::fail("parse-too-slow", json!({"text": text, "micros": v["us"]})),
                Ok(_) => Verdict::Pass,
                Err(DbError::Timeout) => Verdict::fail("parse-too-slow", json!({"text": text})),
                Err(e) => Verdict::fail("parser-killed-the-process", json!({"text": text, "error": e.to_string()})),
            }
        }
        _ => {
            // a fuzzed / literal text: {"base": .., "edits": []} or {"text": ..}
            let f = match serde_json::from_value::<Fuzzed>(case.clone()) {
                Ok(f) => f,
                Err(_) => Fuzzed { base: case["text"].as_str().unwrap_or("").to_string(), edits: vec![] },
            };
            let saved = std::mem::take(&mut *KNOWN_PANICS.lock().unwrap());
            let v = run_fuzzed(&f, &mut CaseReport::default());
            *KNOWN_PANICS.lock().unwrap() = saved;
            v
        }
    }
}

pub fn run(ctx: &Ctx) -> i32 {
    // parse panics are caught and judged; keep the default hook from flooding stderr
    std::panic::set_hook(Box::new(|_| {}));
    let stats = Mutex::new(Stats::default());
    let mut report = Report::new(
        "C17",
        "exploration",
        "(1) grammar round trip: generated QUERY/FIND syntax trees (sequences, FOR, SINCE, USING, USING TIME, RETURN, WHERE trees of depth <= 5 over = != < <= > >= IN AND OR NOT, aggregates, PER, BY, LIMIT, OFFSET, ORDER BY, clauses in generated order) are printed (canonical, minimal-parentheses by precedence, random keyword case, extra whitespace / newlines, redundant parentheses) and parsed by the real parser; the returned Command must equal the generated tree. (2) totality: corpus commands (docs + every command kind) mutated by insert / delete / replace / truncate with keyword, bracket, number-overflow and Unicode fragments, plus random text; parsing must return Ok or Err without panic and within 5 s; every command the parser returns is dispatched against a live engine and must be answered without a panic in any thread. (3) termination: nesting families (parentheses, NOT, OR / AND chains) up to the depth that fits 256 bytes must each parse within 5 s. Non-trivial: an input the parser accepts.",
    );
    report.assumptions = vec!["termination is decided by a 5 s bound on inputs of at most 256 (nesting) / 512 (mutation) bytes; normal parse time is microseconds".into()];
    {
        let mut kp = KNOWN_PANICS.lock().unwrap();
        for k in ctx.findings() {
            if k.status == "open" && k.class.starts_with("panic:") {
                kp.push(k.class[6..].to_string());
            }
        }
    }
    KEYWORD_PREFIX_EXCLUDED.store(ctx.open("ident.keyword_prefix"), std::sync::atomic::Ordering::Relaxed);
    replay_known(ctx, &stats, &mut report, &replay);
    replay_regressions(ctx, &stats, &mut report, &replay);
    if let Some(f) = explore(ctx, "roundtrip", qast, Explore { cases: ctx.tier.pick(60_000, 400_000), max_shrink_iters: 2000, lanes: ctx.lanes }, &stats, run_roundtrip) {
        report.violations.push(f);
    }
    if report.violations.is_empty() {
        if let Some(f) = explore(ctx, "store-roundtrip", store_cmd, Explore { cases: ctx.tier.pick(20_000, 200_000), max_shrink_iters: 2000, lanes: ctx.lanes }, &stats, run_store_roundtrip) {
            report.violations.push(f);
        }
    }
    let corp = corpus();
    stats.lock().unwrap().extra.insert("corpus_size".into(), json!(corp.len()));
    // the corpus itself, unmodified
    for c in &corp {
        let f = Fuzzed { base: c.clone(), edits: vec![] };
        let mut rep = CaseReport::default();
        let v = run_fuzzed(&f, &mut rep);
        let mut st = stats.lock().unwrap();
        st.evaluations += 1;
        st.excluded_known += rep.excluded_known;
        if rep.nontrivial {
            st.nontrivial.insert(fingerprint(&json!(c)));
        }
        if let Verdict::Fail { sig, detail } = v {
            report.violations.push(Failure { check: "fuzzed".into(), sig, detail, case: serde_json::to_value(&f).unwrap() });
            break;
        }
    }
    if report.violations.is_empty() {
        let corp2 = corp.clone();
        if let Some(f) = explore(ctx, "fuzzed", move || fuzzed_strategy(corp2.clone()), Explore { cases: ctx.tier.pick(40_000, 300_000), max_shrink_iters: 1500, lanes: ctx.lanes }, &stats, run_fuzzed) {
            report.violations.push(f);
        }
    }
    if report.violations.is_empty() {
        let max_depth = if ctx.open("parse.exponential_nesting") { 8 } else { 60 };
        if let Some(f) = termination_check(&stats, max_depth) {
            report.violations.push(f);
        }
    }
    finish(ctx, stats.into_inner().unwrap(), report)
}
