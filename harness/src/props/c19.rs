//! C19 - WAL files are deleted only after a complete, lossless archive exists.

use crate::db::{CaseDir, Db, DbConfig, DbError};
use crate::fw::*;
use proptest::prelude::*;
use serde::{Deserialize, Serialize};
use serde_json::{Value, json};
use std::collections::BTreeSet;
use std::sync::Mutex;

#[derive(Clone, Debug, Serialize, Deserialize)]
pub struct Entry {
    pub ts: u64,
    pub ctx: String,
    pub ty: String,
    pub payload: Value,
    pub event_id: u64,
}

#[derive(Clone, Debug, Serialize, Deserialize)]
pub struct LogFile {
    pub id: u64,
    pub entries: Vec<Entry>,
    pub torn_tail: Option<String>,
    /// a line that is not valid UTF-8 after this many entries (a tear inside a multi-byte character that later appends
    /// continued behind): archiving this file may fail - then nothing is deleted - or must keep every valid entry
    #[serde(default)]
    pub bad_line_at: Option<usize>,
}

#[derive(Clone, Debug, Serialize, Deserialize)]
pub enum Fault {
    None,
    /// a regular file where the archive directory should be
    ArchiveDirIsFile,
    /// obstacle directories at the archive file names of these logs (index into the round's files)
    ObstacleAt(Vec<usize>),
}

#[derive(Clone, Debug, Serialize, Deserialize)]
pub struct Round {
    pub files: Vec<LogFile>,
    pub keep_from: u64,
    pub fault: Fault,
}

#[derive(Clone, Debug, Serialize, Deserialize)]
pub struct Case {
    pub rounds: Vec<Round>,
}

fn payload_value() -> BoxedStrategy<Value> {
    prop_oneof![
        any::<i64>().prop_map(|v| json!(v)),
        any::<u64>().prop_map(|v| json!(v)),
        prop::sample::select(vec![0.5f64, -2.25, 1e300, 0.0]).prop_map(|v| json!(v)),
        "[ -~]{0,12}".prop_map(|s| json!(s)),
        "\\PC{0,6}".prop_map(|s| json!(s)),
        any::<bool>().prop_map(|v| json!(v)),
        Just(Value::Null),
    ]
    .boxed()
}

fn entry(seq: std::ops::Range<u64>) -> BoxedStrategy<Entry> {
    (1_700_000_000u64..1_700_000_050, "[a-z]{1,4}", prop::sample::select(vec!["ta", "tb"]), prop::collection::btree_map("[a-z]{1,3}", payload_value(), 0..4), seq)
        .prop_map(|(ts, ctx, ty, pl, event_id)| Entry { ts, ctx, ty: ty.to_string(), payload: json!(pl), event_id })
        .boxed()
}

fn round_strategy(excl_width: bool) -> BoxedStrategy<Round> {
    let base_id = if excl_width { prop_oneof![Just(0u64), 0u64..50].boxed() } else { prop_oneof![3 => Just(0u64), 2 => 0u64..50, 3 => 99_996u64..100_000].boxed() };
    (base_id, 1usize..=6)
        .prop_flat_map(|(base, n)| {
            let files = (0..n as u64)
                .map(|i| {
                    (prop::collection::vec(entry(1..1_000_000_000), 0..8), prop::option::weighted(0.15, prop::sample::select(vec!["{\"timestamp\":17", "garbage", "{"])), prop::option::weighted(0.06, 0usize..8))
                        .prop_map(move |(entries, torn, bad)| {
                            let bad_line_at = bad.map(|p| p.min(entries.len()));
                            LogFile { id: base + i, entries, torn_tail: torn.map(|s| s.to_string()), bad_line_at }
                        })
                })
                .collect::<Vec<_>>();
            (files, 0u64..=(n as u64 + 1), prop_oneof![5 => Just(Fault::None), 1 => Just(Fault::ArchiveDirIsFile), 4 => prop::collection::vec(0usize..n, 1..=n).prop_map(Fault::ObstacleAt)], Just(base))
        })
        .prop_map(|(files, keep_off, fault, base)| Round { files, keep_from: base + keep_off, fault })
        .boxed()
}

fn case_strategy(excl_same_name: bool, excl_width: bool) -> BoxedStrategy<Case> {
    (prop::collection::vec((round_strategy(excl_width), 0u64..3), 1..=3), prop::bool::weighted(0.25))
        .prop_map(move |(rounds, restart_ids)| {
            // a WAL directory normally keeps counting: the ids of a later cleanup continue after the earlier
            // ones. With `restart_ids` the ids start again (the directory had become empty), which can give a
            // later log the archive name of an earlier one.
            let mut out: Vec<Round> = vec![];
            let mut next = 0u64;
            for (i, (mut r, gap)) in rounds.into_iter().enumerate() {
                if i > 0 && restart_ids && excl_same_name {
                    // ids start again, but (open finding: an equal archive NAME overwrites the older archive) every later
                    // log gets a time range of its own, so that only the log id repeats and the names stay distinct
                    for f in r.files.iter_mut() {
                        if f.entries.is_empty() {
                            f.entries.push(Entry { ts: 1_700_000_000, ctx: "z".into(), ty: "ta".into(), payload: json!({}), event_id: 2_000_000_000 + (i as u64) * 1000 + f.id });
                        }
                        for e in f.entries.iter_mut() {
                            e.ts += 100 * i as u64;
                        }
                    }
                } else if i > 0 && !restart_ids {
                    let first = r.files.first().map(|f| f.id).unwrap_or(0);
                    let shift = next + gap;
                    for f in r.files.iter_mut() {
                        f.id = f.id - first + shift;
                    }
                    r.keep_from = r.keep_from.saturating_sub(first) + shift;
                }
                next = r.files.iter().map(|f| f.id).max().unwrap_or(next) + 1;
                out.push(r);
            }
            Case { rounds: out }
        })
        .boxed()
}

fn archive_name(f: &LogFile) -> String {
    let (mn, mx) = if f.entries.is_empty() { (0, 0) } else { (f.entries.iter().map(|e| e.ts).min().unwrap(), f.entries.iter().map(|e| e.ts).max().unwrap()) };
    format!("wal-{:05}-{}-{}.wal.zst", f.id, mn, mx)
}

pub static EXCL_SAME_NAME: std::sync::atomic::AtomicBool = std::sync::atomic::AtomicBool::new(false);

fn run_case(c: &Case, rep: &mut CaseReport) -> Verdict {
    let case = CaseDir::new("c19");
    let cfg = DbConfig { conservative_mode: true, event_per_zone: 1000, fill_factor: 1000, ..DbConfig::default() };
    let mut db = match Db::open(&case.path, &cfg) {
        Ok(d) => d,
        Err(e) => {
            rep.inconclusive = Some(format!("start: {:?}", e));
            return Verdict::Discard("start failed".into());
        }
    };
    let wal_dir = case.path.join("wal").join("shard-7");
    let arch_root = case.path.join("wal").join("archived");
    let arch_dir = arch_root.join("shard-7");
    // the cleanup runs on the WAL directory of a shard id (7) that the hosting engine (1 shard) does not run, so that no
    // live WAL writer, recovery or flush of the host touches the generated files (correction 19 in DESIGN.md)
    let _ = std::fs::create_dir_all(&wal_dir);
    // expected archive content so far: list of (log order key, lines)
    // archive name -> (round, log id, the log's valid lines)
    let mut expected_archives: std::collections::BTreeMap<String, (u64, u64, Vec<String>)> = std::collections::BTreeMap::new();
    for (ri, r) in c.rounds.iter().enumerate() {
        // clear leftovers of the previous round's WAL files (they model log files created later)
        if let Ok(rd) = std::fs::read_dir(&wal_dir) {
            for e in rd.flatten() {
                let _ = std::fs::remove_file(e.path());
            }
        }
        if EXCL_SAME_NAME.load(std::sync::atomic::Ordering::Relaxed) && r.files.iter().any(|f| expected_archives.get(&archive_name(f)).map(|x| !x.2.is_empty()).unwrap_or(false)) {
            rep.excluded_known += 1;
            return Verdict::Discard("known: archive name collision across rounds".into());
        }
        let files_json: Vec<Value> = r
            .files
            .iter()
            .map(|f| json!({"id": f.id, "torn_tail": f.torn_tail, "bad_line_at": f.bad_line_at, "entries": f.entries.iter().map(|e| json!({"ts": e.ts, "ctx": e.ctx, "type": e.ty, "payload": e.payload, "event_id": e.event_id})).collect::<Vec<_>>()}))
            .collect();
        let written = match db.req(json!({"op":"internal","what":"mkwal","shard":7,"files": files_json})) {
            Ok(v) => v,
            Err(e) => return Verdict::fail("worker-died", json!({"error": e.to_string()})),
        };
        let lines_of = |id: u64| -> Vec<String> {
            written["files"].as_array().and_then(|a| a.iter().find(|f| f["id"].as_u64() == Some(id))).and_then(|f| f["lines"].as_array()).map(|a| a.iter().filter_map(|x| x.as_str().map(|s| s.to_string())).collect()).unwrap_or_default()
        };
        // fault pattern of the archive directory
        let eligible: Vec<&LogFile> = r.files.iter().filter(|f| f.id < r.keep_from).collect();
        let mut must_fail = false;
        match &r.fault {
            Fault::None => {}
            Fault::ArchiveDirIsFile => {
                if ri == 0 {
                    let _ = std::fs::remove_dir_all(&arch_root);
                    let _ = std::fs::create_dir_all(arch_root.parent().unwrap());
                    let _ = std::fs::write(&arch_root, b"not a directory");
                    must_fail = !eligible.is_empty();
                }
            }
            Fault::ObstacleAt(ix) => {
                for i in ix {
                    let f = &r.files[*i % r.files.len()];
                    let obstacle = arch_dir.join(archive_name(f));
                    let _ = std::fs::create_dir_all(&obstacle);
                    // (an archive file of an earlier round may already sit at that name: then there is no obstacle)
                    if f.id < r.keep_from && obstacle.is_dir() {
                        must_fail = true;
                    }
                }
            }
        }
        let before: BTreeSet<String> = std::fs::read_dir(&wal_dir).map(|d| d.flatten().map(|e| e.file_name().to_string_lossy().to_string()).collect()).unwrap_or_default();
        let res = match db.req(json!({"op":"internal","what":"walclean","shard":7,"keep_from": r.keep_from})) {
            Ok(v) => v,
            Err(DbError::Timeout) => {
                rep.inconclusive = Some("watchdog".into());
                return Verdict::Discard("watchdog".into());
            }
            Err(e) => return Verdict::fail("worker-died", json!({"error": e.to_string()})),
        };
        rep.sub_evals += 1;
        if res["no_panic"].as_bool() != Some(true) {
            return Verdict::fail("cleanup-panicked", json!({"round": ri, "case": c}));
        }
        let after: BTreeSet<String> = std::fs::read_dir(&wal_dir).map(|d| d.flatten().map(|e| e.file_name().to_string_lossy().to_string()).collect()).unwrap_or_default();
        let deleted: Vec<String> = before.difference(&after).cloned().collect();
        let detail = |why: &str| json!({"why": why, "round": ri, "keep_from": r.keep_from, "fault": r.fault, "files": r.files.iter().map(|f| json!({"id": f.id, "entries": f.entries.len(), "torn": f.torn_tail.is_some(), "archive_name": archive_name(f)})).collect::<Vec<_>>(), "deleted": deleted, "archives": res["archives"].as_array().map(|a| a.iter().map(|x| json!({"name": x["name"], "n": x["entries"].as_array().map(|e| e.len())})).collect::<Vec<_>>())});
        if must_fail {
            rep.label("fault:archiving-must-fail");
            if !deleted.is_empty() {
                return Verdict::fail("log-deleted-although-archiving-failed", detail("a log file was deleted in a cleanup whose archiving step failed for an eligible file"));
            }
            rep.nontrivial = true;
        }
        // a file that is not eligible is never deleted
        for f in r.files.iter().filter(|f| f.id >= r.keep_from) {
            if deleted.contains(&format!("wal-{:05}.log", f.id)) {
                return Verdict::fail("ineligible-log-deleted", detail("log id >= keep_from deleted"));
            }
        }
        // which archives must exist now: every eligible file whose archive path was not obstructed
        let obstructed: BTreeSet<u64> = match &r.fault {
            Fault::ObstacleAt(ix) => ix.iter().map(|i| &r.files[*i % r.files.len()]).filter(|f| arch_dir.join(archive_name(f)).is_dir()).map(|f| f.id).collect(),
            _ => BTreeSet::new(),
        };
        let dir_fault = matches!(r.fault, Fault::ArchiveDirIsFile) && ri == 0;
        // a log with a line that is not valid UTF-8: archiving it may fail (then nothing at all may be deleted in this
        // cleanup) or succeed (then the archive holds every valid entry, before and after the bad line)
        let has_archive = |f: &LogFile| res["archives"].as_array().map(|a| a.iter().any(|x| x["name"].as_str() == Some(archive_name(f).as_str()))).unwrap_or(false);
        let unreadable_failed: Vec<u64> = eligible.iter().filter(|f| f.bad_line_at.is_some() && !has_archive(f)).map(|f| f.id).collect();
        if !unreadable_failed.is_empty() {
            rep.label("file:invalid-utf8-line:archiving-failed");
            if !deleted.is_empty() {
                return Verdict::fail("log-deleted-although-archiving-failed", detail("a log with an undecodable line was not archived, yet log files were deleted"));
            }
        }
        for f in &eligible {
            if obstructed.contains(&f.id) || dir_fault || unreadable_failed.contains(&f.id) {
                continue;
            }
            if f.bad_line_at.is_some() {
                rep.label("file:invalid-utf8-line:archived");
            }
            let an = archive_name(f);
            if let Some((r0, id0, old)) = expected_archives.get(&an) {
                if !old.is_empty() && (*r0, *id0) != (ri as u64, f.id) {
                    // a later log with the same id and time range takes the name of an earlier archive
                    return Verdict::fail("archived-entries-lost", json!({"why": "an archive of an earlier cleanup is overwritten by a later log with the same name", "name": an, "earlier": [r0, id0], "later": [ri, f.id]}));
                }
            }
            expected_archives.insert(an, (ri as u64, f.id, lines_of(f.id)));
        }
        // every deleted log has an archive (checked below through expected_archives)
        for f in &eligible {
            let name = format!("wal-{:05}.log", f.id);
            if deleted.contains(&name) && !expected_archives.contains_key(&archive_name(f)) {
                return Verdict::fail("deleted-log-has-no-readable-archive", detail(&format!("no archive expected / present for deleted {}", name)));
            }
            if deleted.contains(&name) && !f.entries.is_empty() {
                rep.nontrivial = true;
            }
        }
        // each expected archive decodes to exactly the valid lines of its log, in order
        for (an, (_, id, want)) in &expected_archives {
            let arch = res["archives"].as_array().and_then(|a| a.iter().find(|x| x["name"].as_str() == Some(an.as_str())));
            let got: Option<Vec<String>> = arch.and_then(|x| x["entries"].as_array()).map(|a| a.iter().filter_map(|s| s.as_str().map(|t| t.to_string())).collect());
            match got {
                None => return Verdict::fail("archive-missing-or-unreadable", detail(&format!("archive {} of log {}", an, id))),
                Some(g) => {
                    if g != *want {
                        return Verdict::fail("archive-differs-from-log", json!({"archive": an, "want": want, "got": g, "round": ri}));
                    }
                }
            }
        }
        // recover_all returns every archived entry, in log order (cleanup order, then id order)
        let recovered: Vec<String> = res["recovered"].as_array().map(|a| a.iter().filter_map(|s| s.as_str().map(|t| t.to_string())).collect()).unwrap_or_default();
        let mut sorted: Vec<&(u64, u64, Vec<String>)> = expected_archives.values().collect();
        sorted.sort_by_key(|x| (x.0, x.1));
        let want_all: Vec<String> = sorted.iter().flat_map(|x| x.2.clone()).collect();
        // log order is the id order; it is only defined while ids are not reused
        let ids: Vec<u64> = sorted.iter().map(|x| x.1).collect();
        let ids_increase = ids.windows(2).all(|w| w[0] < w[1]);
        let same_multiset = {
            let mut a = recovered.clone();
            a.sort();
            let mut b = want_all.clone();
            b.sort();
            a == b
        };
        if recovered != want_all && !(same_multiset && !ids_increase) {
            let mut a = recovered.clone();
            a.sort();
            let mut b = want_all.clone();
            b.sort();
            let sig = if a == b { "recovery-order-differs-from-log-order" } else if recovered.len() < want_all.len() { "archived-entries-lost" } else { "recovery-content-differs" };
            return Verdict::fail(sig, json!({"round": ri, "recovered": recovered.len(), "expected": want_all.len(), "archives": res["archives"].as_array().map(|a| a.iter().map(|x| x["name"].clone()).collect::<Vec<_>>()), "ids_archived_in_order": sorted.iter().map(|x| (x.0, x.1)).collect::<Vec<_>>()}));
        }
        if r.files.iter().any(|f| f.id >= 99_999) {
            rep.label("ids:width-boundary");
        }
        if r.files.iter().any(|f| f.torn_tail.is_some()) {
            rep.label("file:torn-tail");
        }
        if r.files.iter().any(|f| f.entries.is_empty()) {
            rep.label("file:empty");
        }
        // remove obstacles so that later rounds start from a clean fault state
        if let Fault::ObstacleAt(ix) = &r.fault {
            for i in ix {
                let f = &r.files[*i % r.files.len()];
                let p = arch_dir.join(archive_name(f));
                if p.is_dir() {
                    let _ = std::fs::remove_dir_all(p);
                }
            }
        }
        if matches!(r.fault, Fault::ArchiveDirIsFile) && arch_root.is_file() {
            let _ = std::fs::remove_file(&arch_root);
        }
    }
    rep.sample = Some(json!({"rounds": c.rounds.iter().map(|r| json!({"files": r.files.iter().map(|f| json!({"id": f.id, "entries": f.entries.len(), "torn": f.torn_tail.is_some()})).collect::<Vec<_>>(), "keep_from": r.keep_from, "fault": r.fault})).collect::<Vec<_>>()}));
    Verdict::Pass
}

pub fn replay(_check: &str, case: &Value) -> Verdict {
    match serde_json::from_value::<Case>(case.clone()) {
        Ok(c) => {
            let saved = EXCL_SAME_NAME.swap(false, std::sync::atomic::Ordering::Relaxed);
            let v = run_case(&c, &mut CaseReport::default());
            EXCL_SAME_NAME.store(saved, std::sync::atomic::Ordering::Relaxed);
            v
        }
        Err(e) => Verdict::Discard(format!("bad case: {}", e)),
    }
}

pub fn run(ctx: &Ctx) -> i32 {
    let stats = Mutex::new(Stats::default());
    let mut report = Report::new(
        "C19",
        "fault_enumeration",
        "generated (1-3 cleanup rounds; per round 1-6 WAL log files with ids from 0, small, or around the 99999/100000 width boundary, 0-7 entries each with arbitrary payload values written in the engine's line format, empty files, a torn last line; keep_from anywhere around the ids; fault pattern of the archive location: none, a regular file in place of the archive directory, obstacle directories at exactly the archive file names of a generated subset of the logs). The production path WalCleaner::cleanup_up_to runs in a conservative_mode worker. Oracles: if archiving an eligible file must fail, no log file is deleted; ineligible logs are never deleted; every deleted log has an archive that decodes to exactly its valid lines in order; recover_all equals the concatenation of all archived logs in log order (also across rounds). Non-trivial: a round in which archiving must fail, or a deleted non-empty log.",
    );
    report.assumptions = vec!["the sandbox runs as root, so faults are injected as obstacle directories / files at the target path rather than through permission bits".into()];
    replay_known(ctx, &stats, &mut report, &replay);
    replay_regressions(ctx, &stats, &mut report, &replay);
    let excl_same = ctx.open("archive.same_name_across_rounds");
    let excl_width = ctx.open("archive.id_width_boundary");
    EXCL_SAME_NAME.store(excl_same, std::sync::atomic::Ordering::Relaxed);
    let cases = ctx.tier.pick(1200, 20000);
    if let Some(f) = explore(ctx, "cleanup", || case_strategy(excl_same, excl_width), Explore { cases, max_shrink_iters: ctx.tier.pick(200, 600), lanes: ctx.lanes }, &stats, run_case) {
        report.violations.push(f);
    }
    finish(ctx, stats.into_inner().unwrap(), report)
}
