//! C01 - applied writes survive any process crash and restart, exactly once.
//! (The same interpreter serves C05's crash clause and C11's snapshot monitor.)

use crate::db::{DbConfig, DbError};
use crate::fw::*;
use crate::hist::*;
use proptest::prelude::*;
use serde::{Deserialize, Serialize};
use serde_json::{Value, json};
use std::collections::{BTreeMap, BTreeSet};
use std::sync::Mutex;

/// named step boundaries of the hooks (crash points)
pub const STEPS: &[&str] = &[
    "wal.before_append",
    "wal.appended",
    "wal.rotate_closed",
    "insert.rotated",
    "insert.queued",
    "flush.dequeued",
    "flusher.mkdir",
    "zw.zones",
    "zw.cols",
    "zw.temporal",
    "zw.filters",
    "zw.idx",
    "flusher.type_written",
    "flusher.before_index",
    "segidx.tmp_written",
    "segidx.renamed",
    "flush.written",
    "flush.verified",
    "flush.published",
    "flush.passive_cleared",
    "walclean.archived",
    "walclean.deleted",
    "flush.wal_cleaned",
    "flush.task_done",
    "compact.uid_written",
    "handover.before_save",
    "handover.saved",
    "handover.live_updated",
    "compact.before_reclaim",
    "reclaim.renamed",
    "reclaim.deleted",
];

pub fn step_class(step: &str) -> &'static str {
    if step.starts_with("wal.") {
        "wal"
    } else if step.starts_with("insert.") {
        "rotate"
    } else if step.starts_with("compact.") || step.starts_with("handover.") {
        "compact"
    } else if step.starts_with("reclaim.") {
        "reclaim"
    } else if step.starts_with("walclean.") || step == "flush.wal_cleaned" || step == "flush.task_done" {
        "walclean"
    } else {
        "flush"
    }
}

#[derive(Clone, Debug, Serialize, Deserialize, PartialEq)]
pub enum COp {
    Store(Ev),
    /// read-your-writes + WAL-drained barrier: everything acknowledged so far becomes MUST
    Sync,
    Flush,
    Barrier,
    Compact(u8),
    /// clean shutdown + new lifetime
    Restart,
    /// SIGKILL now (after a Sync when `synced`)
    Kill { synced: bool },
    /// arm a crash point: the nth crossing of the step from now on kills the process
    Arm { step: u8, nth: u8 },
}

#[derive(Clone, Debug, Serialize, Deserialize)]
pub struct Case {
    pub cfg: DbConfig,
    pub types: Vec<TypeDef>,
    pub n_ctx: usize,
    pub ops: Vec<COp>,
    /// wait for queued flushes before every driver-issued SIGKILL (keeps exploration outside the open
    /// finding class "process dies while a flush is in flight")
    #[serde(default)]
    pub quiesce_before_kill: bool,
    /// skip STOREs once a compaction has been followed by a restart of any kind (open finding class
    /// "L0 ids restart at 0 after compaction emptied L0 while WAL ids continue")
    #[serde(default)]
    pub no_store_after_compaction_restart: bool,
    /// skip STOREs in every lifetime but the first (open finding class "ids drift after any recovery")
    #[serde(default)]
    pub no_store_after_restart: bool,
    /// end the history after the first crash recovery has been observed (same open class: a flush or
    /// shutdown after a recovery leaves already flushed WAL files behind)
    #[serde(default)]
    pub stop_after_first_recovery: bool,
    /// skip compaction rounds in every lifetime that follows a crash recovery (narrow form of the same open class)
    #[serde(default)]
    pub no_compaction_after_recovery: bool,
    /// same open class, narrowest form: once a crash recovery has happened, aggregates are not compared with the
    /// selection any more (recovered WAL entries are replayed on top of their segments and counted twice);
    /// loss, corruption, duplicates in selections and REPLAY stay checked
    #[serde(default)]
    pub no_count_after_recovery: bool,
    /// the aggregate = selection comparison is off for the whole history (exploration of the step classes of open findings)
    #[serde(default)]
    pub no_count_at_all: bool,
    /// a manual FLUSH right before the final SIGKILL (nothing is stored after it, so the open finding about
    /// stores that follow a manual FLUSH stays out of reach): flushed data must survive the crash
    #[serde(default)]
    pub final_flush: bool,
}

#[derive(Clone, Copy, PartialEq, Debug)]
pub enum Dur {
    Must,
    May,
}

pub struct Run {
    pub w: World,
    pub dur: BTreeMap<i64, Dur>,
    /// acknowledged but not yet synced
    pub unsynced: Vec<i64>,
    pub lifetimes: usize,
    pub crashes: Vec<String>,
    pub armed: Option<String>,
    pub had_manual_flush: bool,
    pub had_clean_restart: bool,
    pub had_compaction: bool,
    pub compaction_lifetime: usize,
    pub observations: usize,
    pub snapshots: Option<crate::props::c11::Monitor>,
}

pub fn simple_types() -> Vec<TypeDef> {
    vec![
        TypeDef {
            name: "ta".into(),
            fields: vec![
                FieldDef { name: "x".into(), ty: FT::Int, opt: false, alias: "int".into() },
                FieldDef { name: "s".into(), ty: FT::Str, opt: false, alias: "string".into() },
            ],
        },
        TypeDef {
            name: "tb".into(),
            fields: vec![
                FieldDef { name: "y".into(), ty: FT::Float, opt: false, alias: "float".into() },
                FieldDef { name: "e".into(), ty: FT::Enum(vec!["v0".into(), "v1".into()]), opt: false, alias: "enum".into() },
            ],
        },
    ]
}

pub fn simple_ev(n_types: usize, n_ctx: usize) -> BoxedStrategy<Ev> {
    (0..n_types, 0..n_ctx, -3i64..6, prop::sample::select(vec!["a", "b", "", "long-ish string value"]), prop::sample::select(vec![0.5f64, 1.0, -2.5]), 0usize..2)
        .prop_map(|(ty, ctx, x, s, y, e)| {
            if ty == 0 {
                Ev { ty, ctx, vals: vec![json!(x), json!(s)] }
            } else {
                Ev { ty, ctx, vals: vec![json!(y), json!(format!("v{}", e))] }
            }
        })
        .boxed()
}

#[derive(Clone, Copy)]
pub struct Classes {
    pub excl_flush_steps: bool,
    pub excl_compact_steps: bool,
    pub excl_id_drift: bool,
    pub excl_second_crash: bool,
    pub buffered_wal: bool,
    /// C09's open finding (aggregates ignore event type / FOR / SINCE) would pollute the COUNT oracle
    pub single_type: bool,
    pub excl_compact_restart: bool,
    pub excl_store_after_restart: bool,
    /// WAL steps race with an in-flight flush (a WAL rotation coincides with a memtable rotation)
    pub excl_wal_steps: bool,
    /// second exploration: idle SIGKILLs only (no armed step), histories continue through any number of crash
    /// recoveries; while the post-recovery class is open: no compaction after a recovery, no COUNT oracle after one
    pub idle_only: bool,
    /// third exploration: the step classes of open findings (flush / WAL pruning / rotation, compaction / reclaim) ARE armed,
    /// the history stops after the first recovery, and only the oracle those findings break (aggregate = selection)
    /// is switched off; loss, corruption, duplicates and resurrection stay checked
    pub finding_steps_only: bool,
}

pub fn case_strategy(tier: Tier, cl: Classes, max_shards: usize) -> BoxedStrategy<Case> {
    let steps: Vec<u8> = (0..STEPS.len() as u8)
        .filter(|i| {
            let c = step_class(STEPS[*i as usize]);
            if cl.finding_steps_only {
                return (cl.excl_flush_steps && (c == "flush" || c == "walclean" || c == "rotate")) || (cl.excl_compact_steps && (c == "compact" || c == "reclaim"));
            }
            if cl.excl_flush_steps && (c == "flush" || c == "walclean" || c == "rotate") {
                return false;
            }
            // the WAL rotates exactly when the memtable is full, i.e. together with the rotation that queues a flush: a death
            // at this step is a death with a flush in flight (class of the open finding), whatever the driver waited for
            // before the STORE (thorough tier, run 11: a flaky duplicate row, 1 of 5 replays)
            if cl.excl_flush_steps && STEPS[*i as usize] == "wal.rotate_closed" && !cl.finding_steps_only {
                return false;
            }
            if cl.excl_wal_steps && c == "wal" {
                return false;
            }
            if cl.excl_compact_steps && (c == "compact" || c == "reclaim") {
                return false;
            }
            true
        })
        .collect();
    (
        1..=max_shards,
        1usize..=3,
        1usize..=3,
        2usize..=4,
        1usize..=2,
        2usize..=4,
        any::<bool>(),
    )
        .prop_flat_map(move |(shards, epz, ff, spm, n_types, n_ctx, buffered)| {
            let n_types = if cl.single_type { 1 } else { n_types };
            let cfg = DbConfig {
                shard_count: shards,
                event_per_zone: epz,
                fill_factor: ff,
                segments_per_merge: spm,
                wal_flush_each_write: !(cl.buffered_wal && buffered),
                wal_buffered: true,
                ..DbConfig::default()
            };
            let ev = simple_ev(n_types, n_ctx);
            let steps = steps.clone();
            let idle_only = cl.idle_only;
            let op = prop_oneof![
                40 => ev.prop_map(COp::Store),
                10 => Just(COp::Sync),
                3 => Just(if cl.excl_id_drift { COp::Barrier } else { COp::Flush }),
                3 => Just(COp::Barrier),
                3 => (1u8..=2).prop_map(COp::Compact),
                2 => Just(if cl.excl_id_drift { COp::Sync } else { COp::Restart }),
                3 => any::<bool>().prop_map(|synced| COp::Kill { synced }),
                4 => (prop::sample::select(steps.clone()), 1u8..=3).prop_map(move |(step, nth)| if idle_only { COp::Kill { synced: step % 2 == 0 } } else { COp::Arm { step, nth } }),
            ];
            (Just(cfg), Just(n_types), Just(n_ctx), prop::collection::vec(op, 8..=tier.pick(45, 80)), prop::bool::weighted(0.4))
        })
        .prop_map(move |(cfg, n_types, n_ctx, ops, final_flush)| Case { final_flush, cfg, types: simple_types()[..n_types].to_vec(), n_ctx, ops, quiesce_before_kill: cl.excl_flush_steps && !cl.finding_steps_only, no_store_after_compaction_restart: cl.excl_compact_restart, no_store_after_restart: cl.excl_store_after_restart && !cl.idle_only, stop_after_first_recovery: cl.excl_store_after_restart && !cl.idle_only, no_compaction_after_recovery: cl.excl_store_after_restart && cl.idle_only, no_count_after_recovery: cl.excl_store_after_restart && cl.idle_only, no_count_at_all: cl.finding_steps_only })
        .boxed()
}

impl Run {
    pub fn start(tag: &str, c: &Case, monitor: bool) -> Result<Run, Problem> {
        let w = World::start(tag, &c.cfg, &c.types, false)?;
        let mut r = Run {
            w,
            dur: BTreeMap::new(),
            unsynced: vec![],
            lifetimes: 1,
            crashes: vec![],
            armed: None,
            had_manual_flush: false,
            had_clean_restart: false,
            had_compaction: false,
            compaction_lifetime: 0,
            observations: 0,
            snapshots: None,
        };
        if monitor {
            let mut m = crate::props::c11::Monitor::new(&r.w.case.path, c.cfg.shard_count);
            m.tolerate_id_reuse = crate::props::c11::TOLERATE_ID_REUSE.load(std::sync::atomic::Ordering::Relaxed);
            m.tolerate_empty_orphan = crate::props::c11::TOLERATE_EMPTY_ORPHAN.load(std::sync::atomic::Ordering::Relaxed);
            r.snapshots = Some(m);
        }
        Ok(r)
    }

    /// everything acknowledged and visible + WAL drained => MUST
    pub fn sync(&mut self) -> Result<(), Problem> {
        if self.unsynced.is_empty() {
            return Ok(());
        }
        // read-your-writes through each shard's FIFO mailbox
        let mut visible: BTreeSet<i64> = BTreeSet::new();
        for t in self.w.types.clone() {
            let r = self.w.db.cmd(&format!("QUERY {} RETURN [k]", t.name))?;
            for k in ks_of(&r) {
                visible.insert(k);
            }
        }
        self.w.db.req(json!({"op":"wal_barrier"}))?;
        let pending = std::mem::take(&mut self.unsynced);
        for k in pending {
            if visible.contains(&k) {
                self.dur.insert(k, Dur::Must);
            } else {
                // acknowledged but not visible to the read that followed: applied-ness unknown
                self.unsynced.push(k);
            }
        }
        Ok(())
    }
}

pub struct Obs {
    pub fail: Option<(String, Value)>,
}

/// After a (re)start: compare the store with the model; resolve MAY events.
pub fn observe(run: &mut Run, c: &Case, what: &str, weak_prefix: bool) -> Result<Option<(String, Value)>, Problem> {
    run.observations += 1;
    let mut got_all: BTreeSet<i64> = BTreeSet::new();
    let log = |run: &Run| json!(run.w.db.log);
    for (ti, t) in c.types.iter().enumerate() {
        let q = format!("QUERY {}", t.name);
        let r = run.w.db.cmd(&q)?;
        if !r.panics.is_empty() {
            return Ok(Some(("panic".into(), json!({"at": what, "cmd": q, "panics": r.panics, "log": log(run)}))));
        }
        let rows: Vec<i64> = if r.streamed {
            let mut v = vec![];
            for row in &r.rows {
                match r.col("k").and_then(|i| row.get(i)).and_then(|x| x.as_i64()) {
                    Some(k) if k >= K_BASE => v.push(k),
                    _ => match row_k(row) {
                        Some(k) => v.push(k),
                        None => {
                            return Ok(Some(("corrupt-row".into(), json!({"at": what, "cmd": q, "row": row, "log": log(run)}))));
                        }
                    },
                }
            }
            v
        } else if r.status == 200 {
            vec![]
        } else {
            return Ok(Some(("error-response".into(), json!({"at": what, "cmd": q, "status": r.status, "message": r.message, "log": log(run)}))));
        };
        let set: BTreeSet<i64> = rows.iter().cloned().collect();
        if set.len() != rows.len() {
            return Ok(Some(("duplicate-row".into(), json!({"at": what, "cmd": q, "rows": rows, "log": log(run)}))));
        }
        // payload / context / type integrity
        for row in &r.rows {
            let k = row_k(row).unwrap_or(0);
            let Some(e) = run.w.model.events.iter().find(|e| e.k == k) else {
                return Ok(Some(("unknown-event".into(), json!({"at": what, "cmd": q, "row": row, "log": log(run)}))));
            };
            if e.ty != ti {
                return Ok(Some(("wrong-type".into(), json!({"at": what, "cmd": q, "row": row, "log": log(run)}))));
            }
            let ctx_ok = r.col("context_id").and_then(|i| row.get(i)).and_then(|v| v.as_str()) == Some(e.ctx.as_str());
            let mut vals_ok = true;
            for (fi, f) in t.fields.iter().enumerate() {
                let got = r.col(&f.name).and_then(|i| row.get(i)).cloned().unwrap_or(Value::Null);
                let exp = &e.vals[fi];
                let same = match (&got, exp) {
                    (Value::Number(_), Value::Number(_)) => got.as_f64() == exp.as_f64(),
                    _ => got == *exp,
                };
                if !same {
                    vals_ok = false;
                }
            }
            if !ctx_ok || !vals_ok {
                return Ok(Some(("corrupted-event".into(), json!({"at": what, "cmd": q, "row": row, "columns": r.columns, "expected": {"ctx": e.ctx, "vals": e.vals}, "log": log(run)}))));
            }
        }
        // membership
        let must: BTreeSet<i64> = run.w.model.events.iter().filter(|e| e.ty == ti && run.dur.get(&e.k) == Some(&Dur::Must)).map(|e| e.k).collect();
        let known: BTreeSet<i64> = run.w.model.events.iter().filter(|e| e.ty == ti).map(|e| e.k).collect();
        let extra: Vec<i64> = set.difference(&known).cloned().collect();
        if !extra.is_empty() {
            return Ok(Some(("resurrected-or-foreign".into(), json!({"at": what, "cmd": q, "extra": extra, "log": log(run)}))));
        }
        let missing: Vec<i64> = must.difference(&set).cloned().collect();
        if !missing.is_empty() && !weak_prefix {
            return Ok(Some(("lost-applied-event".into(), json!({"at": what, "cmd": q, "missing": missing, "got": set, "crashes": run.crashes, "log": log(run)}))));
        }
        if weak_prefix {
            // buffered WAL + crash: survivors of each shard form a prefix of that shard's applied sequence
            for shard in 0..c.cfg.shard_count {
                let seq: Vec<i64> = run.w.model.events.iter().filter(|e| e.ty == ti && e.shard == shard).map(|e| e.k).collect();
                let mut gone = false;
                for k in seq {
                    let present = set.contains(&k);
                    if present && gone {
                        return Ok(Some(("not-a-prefix".into(), json!({"at": what, "cmd": q, "shard": shard, "got": set, "log": log(run)}))));
                    }
                    if !present {
                        gone = true;
                    }
                }
            }
        }
        // aggregates count each event exactly once
        let qc = format!("QUERY {} COUNT", t.name);
        let rc = run.w.db.cmd(&qc)?;
        let cnt = if rc.streamed { rc.rows.first().and_then(|r| r.first()).and_then(|v| v.as_i64()).unwrap_or(0) } else { 0 };
        // open finding "process dies while a flush is in flight": an armed WAL step fires in the WAL task, which runs
        // beside a flush started by an earlier (or the same) STORE; recovery then replays entries that are also in
        // the new segment and aggregates count them twice. The COUNT comparison is excluded for such a crash.
        let wal_step_with_flush_class_open = c.quiesce_before_kill && run.crashes.iter().any(|w| w.contains("step:wal."));
        let count_excluded = (c.no_count_after_recovery && !run.crashes.is_empty()) || wal_step_with_flush_class_open || c.no_count_at_all;
        if cnt != set.len() as i64 && !count_excluded {
            return Ok(Some(("count-differs-from-selection".into(), json!({"at": what, "cmd": qc, "count": cnt, "selection": set.len(), "rows": set, "crashes": run.crashes, "log": log(run)}))));
        }
        got_all.extend(set);
    }
    // REPLAY membership per context
    for cx in 0..c.n_ctx {
        let name = ctx_name(cx);
        let q = format!("REPLAY FOR {}", name);
        let r = run.w.db.cmd(&q)?;
        let rows: Vec<i64> = ks_of(&r);
        let set: BTreeSet<i64> = rows.iter().cloned().collect();
        if set.len() != rows.len() {
            return Ok(Some(("replay-duplicate".into(), json!({"at": what, "cmd": q, "rows": rows, "log": log(run)}))));
        }
        let want: BTreeSet<i64> = run.w.model.events.iter().filter(|e| e.ctx == name && got_all.contains(&e.k)).map(|e| e.k).collect();
        if set != want && c.types.len() == 1 {
            // (with several types the untyped REPLAY is judged by C04)
            return Ok(Some(("replay-membership".into(), json!({"at": what, "cmd": q, "got": set, "want": want, "log": log(run)}))));
        }
    }
    // resolve MAY: present => durable from now on; absent => never applied
    let before = run.w.model.events.len();
    let dur = &mut run.dur;
    // (under the weak, buffered-WAL clause an acknowledged event may legitimately be gone after a crash)
    run.w.model.events.retain(|e| got_all.contains(&e.k) || (!weak_prefix && dur.get(&e.k) == Some(&Dur::Must)));
    for e in &run.w.model.events {
        dur.insert(e.k, Dur::Must);
    }
    let _ = before;
    run.unsynced.clear();
    Ok(None)
}

/// restart after a crash (worker already dead)
fn recover(run: &mut Run, c: &Case, what: &str) -> Result<Option<(String, Value)>, Problem> {
    // events acknowledged but not synced, and the one in flight, are MAY
    for k in std::mem::take(&mut run.unsynced) {
        run.dur.entry(k).or_insert(Dur::May);
    }
    run.armed = None;
    run.w.reopen()?;
    run.lifetimes += 1;
    for m in run.w.mem_count.iter_mut() {
        *m = 0;
    }
    for r in run.w.retired.iter_mut() {
        r.clear();
    }
    for r in run.w.last_live.iter_mut() {
        r.clear();
    }
    if let Some(m) = run.snapshots.as_mut() {
        if let Some(f) = m.snapshot(&mut run.w.db, &format!("after-restart:{}", what), true) {
            return Ok(Some(f));
        }
    }
    let weak = !c.cfg.wal_flush_each_write;
    observe(run, c, what, weak)
}

pub enum StepOut {
    Ok,
    Fail(String, Value),
}

pub fn run_history(c: &Case, rep: &mut CaseReport, tag: &str, monitor: bool) -> Result<(Run, Option<(String, Value)>), Problem> {
    let mut run = Run::start(tag, c, monitor)?;
    let mut fail: Option<(String, Value)> = None;
    let mut stopped = false;
    'ops: for (oi, op) in c.ops.iter().enumerate() {
        let res: Result<(), Problem> = (|| -> Result<(), Problem> {
            match op {
                COp::Store(ev) => {
                    if (c.no_store_after_compaction_restart && run.had_compaction && run.lifetimes > run.compaction_lifetime)
                        || (c.no_store_after_restart && run.lifetimes > 1)
                    {
                        rep.excluded_known += 1;
                        return Ok(());
                    }
                    // open finding "process dies while a flush is in flight": an armed WAL step fires inside this STORE's WAL
                    // append, i.e. before the event reaches the memtable; flushes started by EARLIER stores are waited for
                    // first, so that the crash does not coincide with one
                    if c.quiesce_before_kill && run.armed.as_deref().map(|s| step_class(s) == "wal").unwrap_or(false) {
                        let _ = run.w.db.req(json!({"op":"flush_barrier"}));
                    }
                    let (m, cmd) = run.w.prepare(ev);
                    run.w.next_seq += 1;
                    let k = m.k;
                    match run.w.db.cmd(&cmd) {
                        Ok(r) => {
                            if !r.ok() {
                                return Err(Problem::Unexpected(format!("conforming STORE rejected: {} -> {} {}", cmd, r.status, r.message)));
                            }
                            run.w.commit(m);
                            run.unsynced.push(k);
                        }
                        Err(DbError::Died(s)) => {
                            // in flight at the crash: MAY
                            run.w.commit(m);
                            run.dur.insert(k, Dur::May);
                            return Err(Problem::Db(DbError::Died(s)));
                        }
                        Err(e) => return Err(Problem::Db(e)),
                    }
                }
                COp::Sync => run.sync()?,
                COp::Flush => {
                    run.had_manual_flush = true;
                    run.w.apply(&Op::Flush)?;
                }
                COp::Barrier => run.w.apply(&Op::Barrier)?,
                COp::Compact(n) => {
                    if c.no_compaction_after_recovery && !run.crashes.is_empty() {
                        rep.excluded_known += 1;
                        return Ok(());
                    }
                    run.had_compaction = true;
                    run.compaction_lifetime = run.lifetimes;
                    run.w.apply(&Op::Compact(*n))?;
                }
                COp::Restart => {
                    run.sync()?;
                    run.had_clean_restart = true;
                    run.w.apply(&Op::Restart)?;
                    run.lifetimes += 1;
                    run.armed = None;
                }
                COp::Kill { synced } => {
                    if *synced {
                        run.sync()?;
                    }
                    if c.quiesce_before_kill {
                        run.w.db.barrier()?;
                    }
                    run.w.db.kill();
                    return Err(Problem::Db(DbError::Died("killed by the driver".into())));
                }
                COp::Arm { step, nth } => {
                    let name = STEPS[*step as usize % STEPS.len()];
                    run.w.db.req(json!({"op":"arm_crash","step":name,"nth":*nth}))?;
                    run.armed = Some(name.to_string());
                }
            }
            Ok(())
        })();
        if let Some(m) = run.snapshots.as_mut() {
            if run.w.db.alive {
                if let Some(f) = m.snapshot(&mut run.w.db, &format!("after-op-{}", oi), false) {
                    fail = Some(f);
                    break 'ops;
                }
            }
        }
        match res {
            Ok(()) => {}
            Err(Problem::Db(DbError::Died(_))) => {
                let what = match (&run.armed, op) {
                    (_, COp::Kill { synced }) => format!("kill:{}", if *synced { "synced" } else { "unsynced" }),
                    (Some(s), _) => format!("step:{}", s),
                    (None, _) => "died-unarmed".to_string(),
                };
                if what == "died-unarmed" {
                    fail = Some(("worker-died".into(), json!({"op_index": oi, "panics": run.w.db.panics, "log": run.w.db.log})));
                    break 'ops;
                }
                rep.label(format!("crash:{}", if what.starts_with("step:") { step_class(&what[5..]) } else { "idle" }));
                if let Some(s) = what.strip_prefix("step:") {
                    rep.label(format!("crash-step:{}", s));
                }
                run.crashes.push(what.clone());
                if let Some(f) = recover(&mut run, c, &what)? {
                    fail = Some(f);
                    break 'ops;
                }
                if c.stop_after_first_recovery {
                    rep.excluded_known += (c.ops.len() - oi - 1) as u64;
                    stopped = true;
                    break 'ops;
                }
            }
            Err(e) => return Err(e),
        }
    }
    if fail.is_none() && !stopped {
        // the history always ends with: sync, idle crash, recovery, observation; then a clean restart and observation
        // (an armed step may still fire during these calls; that is simply the crash)
        if run.w.db.alive {
            match run.sync() {
                Ok(()) | Err(Problem::Db(DbError::Died(_))) => {}
                Err(e) => return Err(e),
            }
        }
        if run.w.db.alive && c.final_flush && run.crashes.is_empty() {
            match run.w.apply(&Op::Flush).and_then(|_| run.w.apply(&Op::Barrier)) {
                Ok(()) => {
                    run.had_manual_flush = true;
                    rep.label("hist:final-manual-flush");
                }
                Err(Problem::Db(DbError::Died(_))) => {}
                Err(e) => return Err(e),
            }
        }
        if run.w.db.alive {
            if c.quiesce_before_kill {
                let _ = run.w.db.barrier();
            }
            run.w.db.kill();
        }
        run.crashes.push(match &run.armed {
            Some(s) if !run.w.db.alive => format!("final-kill-or-step:{}", s),
            _ => "final-kill".into(),
        });
        rep.label("crash:idle");
        if let Some(f) = recover(&mut run, c, "final-kill")? {
            fail = Some(f);
        } else if !c.stop_after_first_recovery {
            run.w.apply(&Op::Restart)?;
            run.lifetimes += 1;
            if let Some(f) = observe(&mut run, c, "final-clean-restart", false)? {
                fail = Some(f);
            }
        }
    }
    Ok((run, fail))
}

fn run_case(c: &Case, rep: &mut CaseReport) -> Verdict {
    match run_history(c, rep, "c01", false) {
        Ok((mut run, fail)) => {
            rep.sub_evals += run.observations as u64;
            let musts = run.dur.values().filter(|d| **d == Dur::Must).count();
            let stepped = run.crashes.iter().any(|c| c.starts_with("step:"));
            if musts > 0 && (stepped || run.w.auto_rotations + run.w.flushes + run.w.compactions_planned > 0) {
                rep.nontrivial = true;
            }
            if run.had_compaction {
                rep.label("hist:compaction");
            }
            if run.w.auto_rotations > 0 {
                rep.label("hist:auto-rotation");
            }
            if run.had_manual_flush {
                rep.label("hist:manual-flush");
            }
            if run.had_clean_restart {
                rep.label("hist:clean-restart");
            }
            rep.sample = Some(json!({
                "config": {"shards": c.cfg.shard_count, "capacity": c.cfg.capacity(), "segments_per_merge": c.cfg.segments_per_merge, "wal_flush_each_write": c.cfg.wal_flush_each_write},
                "ops": c.ops.len(), "events": run.w.model.events.len(), "lifetimes": run.lifetimes, "crashes": run.crashes,
            }));
            match fail {
                Some((sig, detail)) => Verdict::fail(sig, detail),
                None => {
                    if !run.w.db.panics.is_empty() {
                        let p = std::mem::take(&mut run.w.db.panics);
                        return Verdict::fail("panic-in-worker", json!({"panics": p, "log": run.w.db.log}));
                    }
                    Verdict::Pass
                }
            }
        }
        Err(Problem::Db(DbError::Timeout)) => {
            rep.inconclusive = Some("watchdog".into());
            Verdict::Discard("watchdog".into())
        }
        // a spawn / protocol problem of the harness itself (e.g. its binary replaced while running) is not a verdict
        Err(Problem::Db(DbError::Proto(e))) => {
            rep.inconclusive = Some(format!("harness: {}", e));
            Verdict::Discard("harness error".into())
        }
        Err(Problem::Db(e)) => Verdict::fail("worker-died", json!({"error": e.to_string()})),
        Err(Problem::Unexpected(s)) => Verdict::fail("unexpected-response", json!({"what": s})),
    }
}

pub fn replay(_check: &str, case: &Value) -> Verdict {
    match serde_json::from_value::<Case>(case.clone()) {
        Ok(c) => run_case(&c, &mut CaseReport::default()),
        Err(e) => Verdict::Discard(format!("bad case: {}", e)),
    }
}

pub fn classes(ctx: &Ctx) -> Classes {
    Classes {
        excl_flush_steps: ctx.open_any("crash.step_in_flush"),
        excl_compact_steps: ctx.open_any("crash.step_in_compaction"),
        excl_id_drift: ctx.open_any("crash.after_manual_flush_or_clean_restart"),
        excl_second_crash: false,
        buffered_wal: true,
        // several types: aggregates must honour the event type (C09 finding, repaired) and a compaction must not
        // leave a drained type readable from its inputs (C05 finding, open)
        single_type: ctx.open_any("agg.special_fields_skipped") || ctx.open_any("compaction.partial_drain"),
        excl_compact_restart: ctx.open_any("crash.store_after_compaction_and_restart"),
        excl_store_after_restart: ctx.open_any("crash.store_after_crash_recovery"),
        excl_wal_steps: false,
        idle_only: false,
        finding_steps_only: false,
    }
}

pub fn run(ctx: &Ctx) -> i32 {
    let stats = Mutex::new(Stats::default());
    let mut report = Report::new(
        "C01",
        "fault_enumeration",
        "generated (config incl. WAL buffering, 1-2 types, 2-4 contexts, 8-80 ops of STORE / sync / FLUSH / barrier / compaction / clean restart / SIGKILL / armed crash point at a named step of WAL, rotation, flush, index save, WAL cleanup, compaction, hand-over, reclaim); after every crash a new process on the same directories must return every MUST event (acknowledged, visible to a read, WAL drained) exactly once with its payload, COUNT must equal the selection, MAY events at most once; every history ends with an idle SIGKILL and a clean restart. A second exploration (idle-crash-histories) uses idle SIGKILLs only and continues through any number of crash recoveries with stores, auto-flushes and further kills in between (while the post-recovery finding is open: no compaction after a recovery and no COUNT comparison after one; loss, corruption and duplicates stay checked). Non-trivial: a MUST event exists and the crash was at a step boundary or followed a rotation / flush / compaction.",
    );
    report.assumptions = vec![
        "process crash (SIGKILL), not power loss: page cache survives".into(),
        "crash points are the hook step boundaries, not every instruction".into(),
        "with flush_each_write=false the crash clause is the per-shard prefix rule".into(),
    ];
    replay_known(ctx, &stats, &mut report, &replay);
    replay_regressions(ctx, &stats, &mut report, &replay);
    let cl = classes(ctx);
    let cases = ctx.tier.pick(176, 1500);
    if let Some(f) = explore(ctx, "crash-histories", || case_strategy(ctx.tier, cl, 3), Explore { cases, max_shrink_iters: ctx.tier.pick(80, 400), lanes: ctx.lanes }, &stats, run_case) {
        report.violations.push(f);
    }
    // second exploration: idle kills only, any number of recoveries with stores in between
    if report.violations.is_empty() {
        let cl2 = Classes { idle_only: true, ..cl };
        let cases2 = ctx.tier.pick(104, 1200);
        if let Some(f) = explore(ctx, "idle-crash-histories", || case_strategy(ctx.tier, cl2, 3), Explore { cases: cases2, max_shrink_iters: ctx.tier.pick(80, 400), lanes: ctx.lanes }, &stats, run_case) {
            report.violations.push(f);
        }
    }
    // third exploration: crash points inside flush / WAL pruning / rotation / compaction / reclaim (classes of open findings)
    if report.violations.is_empty() && (cl.excl_flush_steps || cl.excl_compact_steps) && std::env::var("VCHECK_C01_MODE_C").is_ok() {
        let cl3 = Classes { finding_steps_only: true, ..cl };
        let cases3 = ctx.tier.pick(72, 1200);
        if let Some(f) = explore(ctx, "finding-step-histories", || case_strategy(ctx.tier, cl3, 3), Explore { cases: cases3, max_shrink_iters: ctx.tier.pick(80, 400), lanes: ctx.lanes }, &stats, run_case) {
            report.violations.push(f);
        }
    }
    let mut st = stats.into_inner().unwrap();
    let steps_hit: Vec<String> = st.labels.keys().filter(|k| k.starts_with("crash-step:")).cloned().collect();
    st.extra.insert("crash_steps_hit".into(), json!(steps_hit));
    finish(ctx, st, report)
}
