//! C16 - a time value denotes the same instant on every path that reads or writes it.

use crate::db::DbConfig;
use crate::fw::*;
use crate::hist::*;
use crate::props::c02::problem_verdict;
use chrono::{Datelike, TimeZone, Timelike};
use proptest::prelude::*;
use serde::{Deserialize, Serialize};
use serde_json::{Value, json};
use std::collections::BTreeMap;
use std::sync::Mutex;

/// how an instant is spelled
#[derive(Clone, Copy, Debug, Serialize, Deserialize, PartialEq)]
pub enum Spell {
    /// RFC 3339 with the given UTC offset in minutes and number of fraction digits
    Iso { offset_min: i32, frac_digits: u8 },
    Secs,
    Millis,
    Micros,
    Nanos,
    FloatSecs,
}

#[derive(Clone, Debug, Serialize, Deserialize)]
pub struct TEv {
    /// instant in nanoseconds since the epoch
    pub ns: i64,
    pub spell: Spell,
    pub ctx: usize,
}

#[derive(Clone, Debug, Serialize, Deserialize)]
pub struct TQ {
    /// "where" | "since"
    pub kind: String,
    pub op: String,
    pub ns: i64,
    pub spell: Spell,
}

#[derive(Clone, Debug, Serialize, Deserialize)]
pub struct Case {
    pub cfg: DbConfig,
    pub events: Vec<TEv>,
    pub flush: bool,
    pub queries: Vec<TQ>,
    pub per: Vec<String>,
    /// declared type of the time field `t`: "datetime" | "timestamp" | "date", optionally "<x> | null"
    #[serde(default = "default_field_kind")]
    pub field_kind: String,
}

fn default_field_kind() -> String {
    "datetime".into()
}

fn floor_div(a: i64, b: i64) -> i64 {
    a.div_euclid(b)
}

/// render an instant in a spelling; None when the spelling cannot carry it (outside the documented digit band)
pub fn spell(ns: i64, sp: Spell) -> Option<Value> {
    let digits = |v: i64| v.unsigned_abs().to_string().len();
    match sp {
        Spell::Iso { offset_min, frac_digits } => {
            let secs = floor_div(ns, 1_000_000_000);
            let sub = ns.rem_euclid(1_000_000_000) as u32;
            let off = chrono::FixedOffset::east_opt(offset_min * 60)?;
            let dt = chrono::DateTime::from_timestamp(secs, sub)?.with_timezone(&off);
            let fmt = match frac_digits {
                0 => chrono::SecondsFormat::Secs,
                3 => chrono::SecondsFormat::Millis,
                6 => chrono::SecondsFormat::Micros,
                _ => chrono::SecondsFormat::Nanos,
            };
            // with fewer fraction digits than the instant has the spelling would denote another instant
            let unit = match frac_digits {
                0 => 1_000_000_000,
                3 => 1_000_000,
                6 => 1_000,
                _ => 1,
            };
            if sub as i64 % unit != 0 {
                return None;
            }
            Some(json!(dt.to_rfc3339_opts(fmt, offset_min == 0)))
        }
        Spell::Secs => {
            if ns % 1_000_000_000 != 0 {
                return None;
            }
            let v = ns / 1_000_000_000;
            if digits(v) <= 11 { Some(json!(v)) } else { None }
        }
        Spell::Millis => {
            if ns % 1_000_000 != 0 {
                return None;
            }
            let v = ns / 1_000_000;
            if (12..=14).contains(&digits(v)) { Some(json!(v)) } else { None }
        }
        Spell::Micros => {
            if ns % 1_000 != 0 {
                return None;
            }
            let v = ns / 1_000;
            if (15..=16).contains(&digits(v)) { Some(json!(v)) } else { None }
        }
        Spell::Nanos => {
            if (17..=19).contains(&digits(ns)) { Some(json!(ns)) } else { None }
        }
        Spell::FloatSecs => {
            if ns % 1_000_000 != 0 {
                return None;
            }
            let f = ns as f64 / 1e9;
            // only when the float is exact enough to denote the same millisecond
            // ... and lies in the same second: beyond 2^53 ns the conversion itself rounds, and an instant on a second
            // boundary can come out as x.9999995, which denotes the previous second (correction 17 in DESIGN.md)
            let same_second = (f.floor() as i64) == ns.div_euclid(1_000_000_000);
            if ((f * 1e9).round() as i64 - ns).abs() < 500_000 && f.abs() < 9e9 && same_second { Some(json!(f)) } else { None }
        }
    }
}

fn spell_strategy() -> BoxedStrategy<Spell> {
    prop_oneof![
        4 => (prop::sample::select(vec![0i32, 60, 120, -300, 330, 345, -720, 840, -210]), prop::sample::select(vec![0u8, 3, 6, 9])).prop_map(|(offset_min, frac_digits)| Spell::Iso { offset_min, frac_digits }),
        2 => Just(Spell::Secs),
        2 => Just(Spell::Millis),
        1 => Just(Spell::Micros),
        1 => Just(Spell::Nanos),
        1 => Just(Spell::FloatSecs),
    ]
    .boxed()
}

#[derive(Clone, Copy)]
struct Excl {
    pre_1970: bool,
    fractional: bool,
    dst_zones: bool,
    float_secs: bool,
    since_numeric: bool,
    beyond_u32: bool,
}

/// `window`: all instants of one case lie within (center - span, center + span) seconds. The engine's
/// per-zone calendar costs time proportional to the hours a zone spans (a zone holding 1973 and 2100
/// takes seconds to flush), so the spread is a per-case parameter: narrow for most cases, wide for some.
fn instant_strategy(ex: Excl, window: (i64, i64)) -> BoxedStrategy<i64> {
    let base: Vec<i64> = vec![
        0,
        1,
        86_399,
        86_400,
        99_999_999_999, // 11 digits in seconds
        100_000_000,    // 12 digits in ms
        1_700_000_000,
        1_700_003_599,
        1_700_003_600,
        1_698_541_200, // 2023-10-29T01:00:00Z: repeated local hour in Europe/Amsterdam
        1_698_539_400, // 2023-10-29T00:30:00Z
        1_679_792_400, // 2023-03-26T01:00:00Z: spring-forward in Europe/Amsterdam
        1_710_046_800, // 2024-03-10T05:00:00Z: midnight gap in America/Havana
        1_710_043_200,
        1_704_067_200, // 2024-01-01T00:00:00Z
        1_703_980_800, // 2023-12-31
        4_102_444_800, // 2100
        9_000_000_000,
    ];
    // (open finding: values or bucket starts before 1970) -> stay a year clear of the epoch
    let lo: i64 = if ex.pre_1970 { 40_000_000 } else { 0 };
    let hi: i64 = if ex.beyond_u32 { 4_200_000_000 } else { 9_100_000_000 };
    let lo = lo.max(window.0);
    let hi = hi.min(window.1).max(lo + 10);
    let mut base: Vec<i64> = base.into_iter().filter(|v| *v >= lo && *v < hi).collect();
    if base.is_empty() {
        base.push(lo);
    }
    let secs = prop_oneof![
        4 => prop::sample::select(base),
        3 => lo..hi,
        if ex.pre_1970 { 0 } else { 1 } + 1 => (if ex.pre_1970 { lo } else { (-3_000_000_000i64).max(window.0) })..hi,
    ];
    (secs, prop_oneof![4 => Just(0i64), 1 => Just(500_000_000i64), 1 => Just(999_000_000i64), 1 => Just(1_000i64), 1 => 0i64..1_000_000_000])
        .prop_map(move |(s, sub)| s * 1_000_000_000 + if ex.fractional { 0 } else { sub })
        .boxed()
}

fn case_strategy(tier: Tier, ex: Excl) -> BoxedStrategy<Case> {
    let zones: Vec<&'static str> = if ex.dst_zones { vec!["UTC", "Asia/Kolkata", "Asia/Tokyo"] } else { vec!["UTC", "Europe/Amsterdam", "America/New_York", "Asia/Kolkata", "America/Havana", "Pacific/Chatham", "Asia/Tokyo"] };
    let centers: Vec<i64> = vec![0, 100_000_000, 1_000_000_000, 1_679_792_400, 1_698_541_200, 1_700_000_000, 1_704_067_200, 1_710_046_800, 4_102_444_800, 9_000_000_000, 99_999_990_000];
    let spans: Vec<i64> = if tier == Tier::Quick { vec![3_600, 86_400, 3 * 86_400, 40 * 86_400, 400 * 86_400] } else { vec![3_600, 86_400, 40 * 86_400, 400 * 86_400, 4_000 * 86_400, 40_000 * 86_400] };
    let kinds = vec!["datetime", "datetime", "timestamp", "date", "datetime | null", "date | null", "timestamp | null"];
    (prop::sample::select(zones), prop::sample::select(vec!["Mon", "Sun", "Sat"]), 1usize..=2, 1usize..=4, any::<bool>(), prop::sample::select(centers), prop::sample::select(spans), prop::sample::select(kinds))
        .prop_flat_map(move |(tz, ws, shards, epz, flush, center, span, kind)| {
            let window = (center - span, center + span);
            let cfg = DbConfig { shard_count: shards, event_per_zone: epz, fill_factor: 2, timezone: tz.to_string(), week_start: ws.to_string(), ..DbConfig::default() };
            let sp = move || spell_strategy().prop_map(move |s| if ex.float_secs && s == Spell::FloatSecs { Spell::Secs } else { s });
            let ev = (instant_strategy(ex, window), sp(), 0usize..3).prop_map(|(ns, spell, ctx)| TEv { ns, spell, ctx });
            let q = (prop::sample::select(vec!["where", "where", "since"]), prop::sample::select(vec!["=", "!=", "<", "<=", ">", ">="]), instant_strategy(ex, window), sp())
                .prop_map(move |(kind, op, ns, spell)| {
                    let spell = if kind == "where" {
                        // WHERE accepts ISO-8601 strings and epoch seconds
                        match spell {
                            Spell::Iso { .. } | Spell::Secs => spell,
                            _ => Spell::Secs,
                        }
                    } else if ex.since_numeric {
                        match spell {
                            Spell::Iso { .. } => spell,
                            _ => Spell::Iso { offset_min: 0, frac_digits: 0 },
                        }
                    } else if spell == Spell::FloatSecs {
                        // SINCE is documented for ISO-8601 strings and integer epochs only
                        Spell::Secs
                    } else {
                        spell
                    };
                    TQ { kind: kind.to_string(), op: op.to_string(), ns, spell }
                });
            let per = prop::collection::vec(prop::sample::select(vec!["HOUR", "DAY", "WEEK", "MONTH", "YEAR"]), 1..=3).prop_map(|v| v.into_iter().map(|s| s.to_string()).collect::<Vec<_>>());
            (Just(cfg), prop::collection::vec(ev, 4..=tier.pick(24, 48)), Just(flush), prop::collection::vec(q, 4..=tier.pick(12, 20)), per, Just(kind.to_string()))
        })
        .prop_map(|(cfg, events, flush, queries, per, field_kind)| Case { cfg, events, flush, queries, per, field_kind })
        .boxed()
}

fn bucket_start(secs: i64, gran: &str, tz: chrono_tz::Tz, week_start: chrono::Weekday) -> Option<i64> {
    let dt = chrono::DateTime::from_timestamp(secs, 0)?.with_timezone(&tz);
    let date = dt.date_naive();
    let (d, h) = match gran {
        "HOUR" => (date, dt.hour()),
        "DAY" => (date, 0),
        "WEEK" => {
            let back = (dt.weekday().num_days_from_monday() + 7 - week_start.num_days_from_monday()) % 7;
            (date - chrono::Duration::days(back as i64), 0)
        }
        "MONTH" => (date.with_day(1)?, 0),
        _ => (date.with_month(1)?.with_day(1)?, 0),
    };
    let naive = d.and_hms_opt(h, 0, 0)?;
    match tz.from_local_datetime(&naive) {
        chrono::LocalResult::Single(t) => Some(t.timestamp()),
        // the start of the bucket is a repeated or a skipped local time: the aligned start is not unique
        chrono::LocalResult::Ambiguous(a, b) => {
            // for HOUR the bucket of the instant itself is the occurrence that contains it
            if gran == "HOUR" {
                let (a, b) = (a.timestamp(), b.timestamp());
                Some(if secs >= b.max(a) { a.max(b) } else { a.min(b) })
            } else {
                Some(a.timestamp().min(b.timestamp()))
            }
        }
        chrono::LocalResult::None => None,
    }
}

fn run_case(c: &Case, rep: &mut CaseReport) -> Verdict {
    let (alias, opt) = match c.field_kind.strip_suffix(" | null") {
        Some(a) => (a.to_string(), true),
        None => (c.field_kind.clone(), false),
    };
    let td = TypeDef { name: "ev".into(), fields: vec![FieldDef { name: "t".into(), ty: if alias == "date" { FT::Date } else { FT::Datetime }, opt, alias }] };
    rep.label(format!("field:{}", c.field_kind));
    let mut w = match World::start("c16", &c.cfg, &[td.clone()], false) {
        Ok(w) => w,
        Err(e) => {
            rep.inconclusive = Some(format!("start: {:?}", e));
            return Verdict::Discard("start failed".into());
        }
    };
    // STORE side: every spelling of an instant is stored as the same second
    let mut stored: Vec<(i64, i64, i64)> = vec![]; // (k, instant ns, expected floor second)
    for (i, e) in c.events.iter().enumerate() {
        let Some(v) = spell(e.ns, e.spell) else { continue };
        let k = K_BASE + i as i64;
        let cmd = format!("STORE ev FOR {} PAYLOAD {}", ctx_name(e.ctx), json!({"k": k, "t": v}));
        let r = match w.db.cmd(&cmd) {
            Ok(r) => r,
            Err(er) => return problem_verdict(Problem::Db(er), &mut w, rep),
        };
        if !r.ok() {
            return Verdict::fail("time-spelling-rejected", json!({"cmd": cmd, "status": r.status, "message": r.message, "spelling": e.spell, "instant_ns": e.ns, "log": w.db.log}));
        }
        stored.push((k, e.ns, floor_div(e.ns, 1_000_000_000)));
        rep.label(format!("store:{}", match e.spell { Spell::Iso { .. } => "iso", Spell::Secs => "s", Spell::Millis => "ms", Spell::Micros => "us", Spell::Nanos => "ns", Spell::FloatSecs => "float" }));
        if e.ns < 0 {
            rep.label("instant:pre-1970");
        }
    }
    if stored.is_empty() {
        return Verdict::Discard("no spellable event".into());
    }
    if c.flush {
        if let Err(e) = w.apply(&Op::Flush) {
            return problem_verdict(e, &mut w, rep);
        }
    }
    if let Err(e) = w.db.barrier() {
        return problem_verdict(Problem::Db(e), &mut w, rep);
    }
    let r = match w.db.cmd("QUERY ev") {
        Ok(r) => r,
        Err(e) => return problem_verdict(Problem::Db(e), &mut w, rep),
    };
    let Some(ti) = r.col("t") else {
        return Verdict::fail("no-time-column", json!({"columns": r.columns, "log": w.db.log}));
    };
    let mut sec_of: BTreeMap<i64, i64> = BTreeMap::new();
    for row in &r.rows {
        if let (Some(k), Some(s)) = (row_k(row), row.get(ti).and_then(|v| v.as_i64())) {
            sec_of.insert(k, s);
        }
    }
    // agreement of spellings per instant + floor for non-negative instants
    let mut by_instant: BTreeMap<i64, Vec<(i64, i64)>> = BTreeMap::new();
    for (k, ns, fl) in &stored {
        let Some(s) = sec_of.get(k) else {
            return Verdict::fail("stored-event-not-returned", json!({"k": k, "log": w.db.log}));
        };
        if *ns >= 0 && s != fl {
            return Verdict::fail("stored-second-differs-from-instant", json!({"k": k, "instant_ns": ns, "expected_second": fl, "stored": s, "log": w.db.log}));
        }
        if *ns < 0 && *s != *fl && *s != fl + 1 {
            return Verdict::fail("stored-second-differs-from-instant", json!({"k": k, "instant_ns": ns, "expected_second": [fl, fl + 1], "stored": s, "log": w.db.log}));
        }
        by_instant.entry(*ns).or_default().push((*k, *s));
    }
    for (ns, v) in &by_instant {
        if v.iter().any(|(_, s)| *s != v[0].1) {
            return Verdict::fail("spellings-of-one-instant-disagree", json!({"instant_ns": ns, "stored_seconds": v, "log": w.db.log}));
        }
    }
    rep.sub_evals += stored.len() as u64;
    // query side: a literal in any spelling selects exactly the events whose stored second satisfies the comparison
    for q in &c.queries {
        let Some(lit) = spell(q.ns, q.spell) else { continue };
        let lit_sec = floor_div(q.ns, 1_000_000_000);
        if q.ns < 0 && q.ns % 1_000_000_000 != 0 {
            continue; // floor vs truncation of a negative fractional literal is not specified
        }
        let lit_txt = match &lit {
            Value::String(s) => format!("\"{}\"", s),
            other => other.to_string(),
        };
        let (cmd, op) = if q.kind == "since" {
            let s = match &lit {
                Value::String(s) => s.clone(),
                other => other.to_string(),
            };
            (format!("QUERY ev SINCE \"{}\" USING t RETURN [k]", s), ">=".to_string())
        } else {
            (format!("QUERY ev RETURN [k] WHERE t {} {}", q.op, lit_txt), q.op.clone())
        };
        let r = match w.db.cmd(&cmd) {
            Ok(r) => r,
            Err(e) => return problem_verdict(Problem::Db(e), &mut w, rep),
        };
        rep.sub_evals += 1;
        if !r.panics.is_empty() {
            return Verdict::fail("panic", json!({"cmd": cmd, "panics": r.panics, "log": w.db.log}));
        }
        let want: std::collections::BTreeSet<i64> = stored
            .iter()
            .filter(|(k, _, _)| {
                let s = sec_of[k];
                match op.as_str() {
                    "=" => s == lit_sec,
                    "!=" => s != lit_sec,
                    "<" => s < lit_sec,
                    "<=" => s <= lit_sec,
                    ">" => s > lit_sec,
                    _ => s >= lit_sec,
                }
            })
            .map(|(k, _, _)| *k)
            .collect();
        if r.is_error() {
            if want.is_empty() {
                continue;
            }
            return Verdict::fail("error-response", json!({"cmd": cmd, "status": r.status, "message": r.message, "parse_error": r.parse_error, "log": w.db.log}));
        }
        let got: std::collections::BTreeSet<i64> = ks_of(&r).into_iter().collect();
        if got != want {
            let missing: Vec<i64> = want.difference(&got).map(|k| k - K_BASE).collect();
            let extra: Vec<i64> = got.difference(&want).map(|k| k - K_BASE).collect();
            return Verdict::fail(
                format!("{}-literal-selects-wrong-events", q.kind),
                json!({"cmd": cmd, "literal_second": lit_sec, "missing": missing, "extra": extra, "stored_seconds": stored.iter().map(|(k, _, _)| json!([k - K_BASE, sec_of[k]])).collect::<Vec<_>>(), "flushed": c.flush, "log": w.db.log}),
            );
        }
        rep.label(format!("{}:{}", q.kind, match q.spell { Spell::Iso { .. } => "iso", Spell::Secs => "s", Spell::Millis => "ms", Spell::Micros => "us", Spell::Nanos => "ns", Spell::FloatSecs => "float" }));
        if !want.is_empty() && want.len() < stored.len() {
            rep.nontrivial = true;
        }
    }
    // PER buckets aligned to the configured calendar
    let tz: chrono_tz::Tz = c.cfg.timezone.parse().unwrap_or(chrono_tz::UTC);
    let ws = match c.cfg.week_start.as_str() {
        "Sun" => chrono::Weekday::Sun,
        "Sat" => chrono::Weekday::Sat,
        _ => chrono::Weekday::Mon,
    };
    for g in &c.per {
        let cmd = format!("QUERY ev COUNT PER {} USING t", g);
        let r = match w.db.cmd(&cmd) {
            Ok(r) => r,
            Err(e) => return problem_verdict(Problem::Db(e), &mut w, rep),
        };
        rep.sub_evals += 1;
        if !r.panics.is_empty() || r.dispatch_panic {
            return Verdict::fail("panic", json!({"cmd": cmd, "panics": r.panics, "timezone": c.cfg.timezone, "stored_seconds": sec_of.values().collect::<Vec<_>>(), "log": w.db.log}));
        }
        if r.is_error() {
            return Verdict::fail("error-response", json!({"cmd": cmd, "status": r.status, "message": r.message, "log": w.db.log}));
        }
        let mut want: BTreeMap<i64, i64> = BTreeMap::new();
        let mut unspecified = false;
        for (k, _, _) in &stored {
            let s = sec_of[k];
            if s < 0 {
                unspecified = true;
                continue;
            }
            match bucket_start(s, g, tz, ws) {
                Some(b) => *want.entry(b).or_insert(0) += 1,
                None => unspecified = true,
            }
        }
        if unspecified {
            rep.label("per:unspecified-bucket-start");
            continue;
        }
        let bi = r.col("bucket").unwrap_or(0);
        let ni = r.col("count").unwrap_or(1);
        let mut got: BTreeMap<i64, i64> = BTreeMap::new();
        for row in &r.rows {
            *got.entry(row.get(bi).and_then(|v| v.as_i64()).unwrap_or(i64::MIN)).or_insert(0) += row.get(ni).and_then(|v| v.as_i64()).unwrap_or(0);
        }
        if got != want {
            return Verdict::fail("bucket-keys-not-aligned", json!({"cmd": cmd, "timezone": c.cfg.timezone, "week_start": c.cfg.week_start, "got": got, "want": want, "log": w.db.log}));
        }
        rep.label(format!("per:{}", g));
    }
    rep.label(format!("tz:{}", c.cfg.timezone));
    rep.sample = Some(json!({"timezone": c.cfg.timezone, "week_start": c.cfg.week_start, "events": stored.len(), "flushed": c.flush, "first_cmds": w.db.log.iter().skip(1).take(3).collect::<Vec<_>>(), "queries": c.queries.len(), "per": c.per}));
    if !w.db.panics.is_empty() {
        return Verdict::fail("panic-in-worker", json!({"panics": w.db.panics, "log": w.db.log}));
    }
    Verdict::Pass
}

pub fn replay(_check: &str, case: &Value) -> Verdict {
    match serde_json::from_value::<Case>(case.clone()) {
        Ok(c) => run_case(&c, &mut CaseReport::default()),
        Err(e) => Verdict::Discard(format!("bad case: {}", e)),
    }
}

pub fn run(ctx: &Ctx) -> i32 {
    let stats = Mutex::new(Stats::default());
    let mut report = Report::new(
        "C16",
        "exploration",
        "generated (timezone / week-start configuration, instants incl. before 1970, at digit-count boundaries, on hour/day/DST boundaries, with fractional seconds; each STOREd in a generated spelling: RFC 3339 with offsets -12:00..+14:00 and 0/3/6/9 fraction digits, integer epochs in s / ms / us / ns built inside the documented digit band, float seconds). Oracles: every spelling is accepted; the value read back equals floor(instant) (negative fractional instants: floor or truncation) and all spellings of one instant agree; a WHERE literal (ISO or epoch seconds) or SINCE .. USING t literal (any spelling) selects exactly the events whose stored second satisfies the comparison with the literal's second; COUNT PER HOUR..YEAR USING t bucket keys equal an independent chrono-tz bucket start in the configured zone / week start. Non-trivial: a time-restricted query whose result is a non-empty strict subset.",
    );
    report.assumptions = vec!["bucket starts that fall on a skipped local time are not specified and are not judged".into(), "negative fractional literals are not used on the query side".into()];
    replay_known(ctx, &stats, &mut report, &replay);
    replay_regressions(ctx, &stats, &mut report, &replay);
    let ex = Excl { pre_1970: ctx.open("time.before_1970"), fractional: ctx.open("time.fractional_seconds"), dst_zones: ctx.open("time.dst_zone_buckets"), float_secs: ctx.open("time.float_seconds"), since_numeric: ctx.open("time.since_numeric_spelling"), beyond_u32: ctx.open("time.beyond_year_2106") };
    let cases = ctx.tier.pick(200, 1500);
    let tier = ctx.tier;
    if let Some(f) = explore(ctx, "time-paths", || case_strategy(tier, ex), Explore { cases, max_shrink_iters: ctx.tier.pick(150, 500), lanes: ctx.lanes }, &stats, run_case) {
        report.violations.push(f);
    }
    finish(ctx, stats.into_inner().unwrap(), report)
}
