//! C07 - stored values come back unchanged from every storage tier.

use crate::db::DbConfig;
use crate::fw::*;
use crate::hist::*;
use crate::props::c02::problem_verdict;
use proptest::prelude::*;
use serde::{Deserialize, Serialize};
use serde_json::{Value, json};
use std::collections::BTreeMap;
use std::sync::Mutex;

#[derive(Clone, Debug, Serialize, Deserialize)]
pub struct Case {
    pub cfg: DbConfig,
    pub td: TypeDef,
    pub n_ctx: usize,
    pub ops: Vec<Op>,
    pub tail: Vec<Op>,
    /// RETURN lists (field names, may contain unknown names and duplicates)
    pub returns: Vec<Vec<String>>,
}

fn edge_value(ty: &FT, opt: bool, excl: &Excl) -> BoxedStrategy<Value> {
    let base: BoxedStrategy<Value> = match ty {
        FT::Int => prop_oneof![
            3 => any::<i64>().prop_map(|v| json!(v)),
            3 => prop::sample::select(vec![i64::MIN, i64::MIN + 1, -1, 0, 1, i64::MAX - 1, i64::MAX, 1 << 53, (1 << 53) + 1, -(1 << 53) - 1, 4_294_967_296, -2_147_483_649]).prop_map(|v| json!(v)),
            2 => (-5i64..5).prop_map(|v| json!(v)),
        ]
        .boxed(),
        FT::U64 => {
            let big = !excl.big_u64;
            prop_oneof![
                3 => any::<u64>().prop_map(move |v| if big { json!(v) } else { json!(v >> 1) }),
                3 => prop::sample::select(vec![0u64, 1, i64::MAX as u64, i64::MAX as u64 + 1, u64::MAX - 1, u64::MAX, 1 << 53, (1 << 53) + 1]).prop_map(move |v| if big { json!(v) } else { json!(v.min(i64::MAX as u64)) }),
                2 => (0u64..5).prop_map(|v| json!(v)),
            ]
            .boxed()
        }
        FT::Float => prop_oneof![
            3 => any::<f64>().prop_filter("finite", |f| f.is_finite()).prop_map(|v| json!(v)),
            3 => prop::sample::select(vec![0.0f64, -0.0, 1.0, -1.0, 2.0, 0.5, -0.5, 1e308, -1e308, 5e-324, 2.2250738585072014e-308, 0.1, 1e15, 1e16, 9007199254740993.0, 3.0e10, 123456.789]).prop_map(|v| json!(v)),
            1 => (-5i64..5).prop_map(|v| json!(v as f64)),
        ]
        .boxed(),
        FT::Str => {
            let looks = !excl.typed_looking_strings;
            let mut pool: Vec<String> = vec!["", "a", " ", "  lead", "trail  ", "é", "日本語", "😀", "a\"b", "back\\slash", "tab\there", "line\nbreak", "UPPER", "x".repeat(300).as_str(), "{", "[", "a,b", "k", "1e3x"]
                .into_iter()
                .map(|s| s.to_string())
                .collect();
            if looks {
                for s in ["10", "-7", "0", "007", "1.5", "1e3", "true", "false", "null", "[1,2]", "{\"a\":1}", "18446744073709551615", "9223372036854775808", "2025-01-01", "2025-01-01T00:00:00Z", "NaN", "Infinity"] {
                    pool.push(s.to_string());
                }
            }
            let no_brace = excl.brace_string;
            let no_typed = excl.typed_looking_strings;
            let fix = move |s: String| -> Value {
                let mut s = s;
                if no_brace {
                    s = s.replace('{', "(").replace('}', ")");
                }
                if no_typed && looks_typed(&s) {
                    s = format!("s{}", s.trim());
                }
                json!(s)
            };
            if no_brace {
                pool.retain(|s| !s.contains('{') && !s.contains('}'));
            }
            prop_oneof![
                4 => prop::sample::select(pool).prop_map(|s| json!(s)),
                1 => "[ -~]{0,12}".prop_map(fix),
                1 => "\\PC{0,6}".prop_map(fix),
            ]
            .boxed()
        }
        FT::Bool => any::<bool>().prop_map(|v| json!(v)).boxed(),
        FT::Enum(vs) => prop::sample::select(vs.clone()).prop_map(|v| json!(v)).boxed(),
        FT::Datetime => prop_oneof![
            3 => (0i64..4_000_000_000).prop_map(|v| json!(v)),
            2 => (0i64..4_000_000_000).prop_map(|v| {
                let t = chrono::DateTime::from_timestamp(v, 0).unwrap();
                json!(t.to_rfc3339_opts(chrono::SecondsFormat::Secs, true))
            }),
            1 => (1_000_000_000_000i64..4_000_000_000_000).prop_map(|v| json!(v)),
        ]
        .boxed(),
        FT::Date => prop_oneof![
            (0i64..40000).prop_map(|d| {
                let t = chrono::DateTime::from_timestamp(d * 86400, 0).unwrap();
                json!(t.format("%Y-%m-%d").to_string())
            }),
            (0i64..4_000_000_000).prop_map(|v| json!(v)),
        ]
        .boxed(),
    };
    if opt && !(excl.null_opt_string && *ty == FT::Str) { prop_oneof![3 => base, 2 => Just(Value::Null)].boxed() } else { base }
}

/// does the text parse as a JSON value other than a string (number, bool, null, array, object)?
pub fn looks_typed(s: &str) -> bool {
    match serde_json::from_str::<Value>(s) {
        Ok(Value::String(_)) => false,
        Ok(_) => true,
        Err(_) => s.trim().parse::<f64>().is_ok(),
    }
}

#[derive(Clone, Copy, Default)]
struct Excl {
    big_u64: bool,
    typed_looking_strings: bool,
    return_list: bool,
    null_opt_string: bool,
    brace_string: bool,
}

fn full_typedef() -> BoxedStrategy<TypeDef> {
    // every field type, some optional; 4..9 fields
    let kinds: Vec<(FT, bool)> = vec![
        (FT::Int, false),
        (FT::U64, false),
        (FT::Float, false),
        (FT::Str, false),
        (FT::Bool, false),
        (FT::Enum(vec!["red".into(), "Green".into(), "blue_1".into()]), false),
        (FT::Datetime, false),
        (FT::Date, false),
        (FT::Int, true),
        (FT::Str, true),
        (FT::Float, true),
        (FT::Bool, true),
        (FT::U64, true),
        (FT::Datetime, true),
    ];
    prop::sample::subsequence(kinds, 4..=9)
        .prop_flat_map(|ks| {
            let n = ks.len();
            (Just(ks), prop::collection::vec(0usize..4, n))
        })
        .prop_map(|(ks, als)| TypeDef {
            name: "ev".into(),
            fields: ks
                .into_iter()
                .zip(als)
                .enumerate()
                .map(|(i, ((ty, opt), al))| {
                    let a = aliases(&ty);
                    FieldDef { name: format!("f{}", i), alias: a[al % a.len()].to_string(), ty, opt }
                })
                .collect(),
        })
        .boxed()
}

fn case_strategy(ctx: &Ctx) -> BoxedStrategy<Case> {
    let tier = ctx.tier;
    let excl = Excl {
        big_u64: ctx.open("data.u64_above_i64_max"),
        typed_looking_strings: ctx.open("data.typed_looking_string"),
        return_list: ctx.open("return.list_with_mixed_tiers"),
        null_opt_string: ctx.open("data.null_optional_string"),
        brace_string: ctx.open_any("data.string_with_brace"),
    };
    (cfg_strategy(3), full_typedef(), 1usize..=3)
        .prop_flat_map(move |(cfg, td, n_ctx)| {
            let fields = td.fields.clone();
            let vals: Vec<BoxedStrategy<Value>> = fields.iter().map(|f| edge_value(&f.ty, f.opt, &excl)).collect();
            let ev = (0..n_ctx, vals).prop_map(|(ctx, vals)| Ev { ty: 0, ctx, vals });
            let op = prop_oneof![
                30 => ev.prop_map(Op::Store),
                2 => Just(Op::Flush),
                2 => Just(Op::Barrier),
                2 => (1u8..=2).prop_map(Op::Compact),
            ];
            let ops = prop::collection::vec(op, 4..=tier.pick(30, 60));
            let tail = prop::collection::vec(prop_oneof![3 => Just(Op::Flush), 3 => (1u8..=2).prop_map(Op::Compact), 3 => Just(Op::Restart)], 1..=3);
            let mut names: Vec<String> = td.fields.iter().map(|f| f.name.clone()).collect();
            names.push("k".into());
            names.push("nosuch".into());
            names.push("context_id".into());
            let ret = prop::collection::vec(prop::sample::select(names), 0..=4);
            let returns = if excl.return_list { prop::collection::vec(ret, 0..=0).boxed() } else { prop::collection::vec(ret, 1..=3).boxed() };
            (Just(cfg), Just(td), Just(n_ctx), ops, tail, returns)
        })
        .prop_map(|(cfg, td, n_ctx, ops, tail, returns)| Case { cfg, td, n_ctx, ops, tail, returns })
        .boxed()
}

fn num_eq(a: &Value, b: &Value) -> bool {
    match (a.as_number(), b.as_number()) {
        (Some(x), Some(y)) => {
            if let (Some(i), Some(j)) = (x.as_i64(), y.as_i64()) {
                return i == j;
            }
            if let (Some(i), Some(j)) = (x.as_u64(), y.as_u64()) {
                return i == j;
            }
            // one side float: exact comparison through i128 when integral
            let fx = x.as_f64().unwrap_or(f64::NAN);
            let fy = y.as_f64().unwrap_or(f64::NAN);
            if x.is_f64() && y.is_f64() {
                return fx == fy;
            }
            // int vs float: equal only if the float is integral and equals the int exactly
            let (f, n) = if x.is_f64() { (fx, y) } else { (fy, x) };
            if f.fract() != 0.0 || f.abs() >= 1.9e19 {
                return false;
            }
            let fi = f as i128;
            if let Some(i) = n.as_i64() {
                fi == i as i128
            } else if let Some(u) = n.as_u64() {
                fi == u as i128
            } else {
                false
            }
        }
        _ => false,
    }
}

/// expected vs returned cell
fn cell_ok(ty: &FT, expect: &Value, got: &Value) -> bool {
    if expect.is_null() {
        return got.is_null();
    }
    match ty {
        FT::Int | FT::U64 | FT::Float | FT::Datetime | FT::Date => got.is_number() && num_eq(expect, got),
        FT::Str | FT::Enum(_) => got.is_string() && got.as_str() == expect.as_str(),
        FT::Bool => got.is_boolean() && got.as_bool() == expect.as_bool(),
    }
}

fn value_class(ty: &FT, v: &Value) -> Option<&'static str> {
    match ty {
        FT::Int => v.as_i64().and_then(|i| if i.unsigned_abs() > (1u64 << 53) { Some("edge:int_beyond_2^53") } else { None }),
        FT::U64 => v.as_u64().and_then(|u| if u > i64::MAX as u64 { Some("edge:u64_above_i64max") } else { None }),
        FT::Float => v.as_f64().and_then(|f| if f.fract() == 0.0 { Some("edge:integral_float") } else if f.abs() > 1e300 || (f != 0.0 && f.abs() < 1e-300) { Some("edge:extreme_float") } else { None }),
        FT::Str => v.as_str().and_then(|s| {
            if s.is_empty() {
                Some("edge:empty_string")
            } else if s.parse::<f64>().is_ok() || s == "true" || s == "false" || s == "null" || s.starts_with('[') || s.starts_with('{') {
                Some("edge:typed_looking_string")
            } else if !s.is_ascii() {
                Some("edge:non_ascii_string")
            } else if s.len() > 100 {
                Some("edge:long_string")
            } else {
                None
            }
        }),
        _ => None,
    }
}

fn check_rows(
    what: &str,
    r: &crate::db::Resp,
    c: &Case,
    w: &World,
    by_id: Option<&BTreeMap<u64, usize>>,
    requested: Option<&Vec<String>>,
    want_events: &[usize],
    core_seen: &mut BTreeMap<i64, (String, String, Value, u64)>,
    rep: &mut CaseReport,
    on_disk: bool,
) -> Result<(), Verdict> {
    let log = || json!(w.db.log);
    if !r.streamed {
        if want_events.is_empty() {
            return Ok(());
        }
        return Err(Verdict::fail("error-response", json!({"cmd": what, "status": r.status, "message": r.message, "log": log()})));
    }
    // column set
    let core = ["context_id", "event_type", "timestamp", "event_id"];
    for cf in core {
        if r.col(cf).is_none() {
            return Err(Verdict::fail("core-field-dropped", json!({"cmd": what, "missing": cf, "columns": r.columns, "log": log()})));
        }
    }
    let payload_cols: Vec<String> = r.columns.iter().map(|c| c.0.clone()).filter(|n| !core.contains(&n.as_str())).collect();
    let schema_names: Vec<String> = std::iter::once("k".to_string()).chain(c.td.fields.iter().map(|f| f.name.clone())).collect();
    let expected_cols: Vec<String> = match requested {
        Some(req) if !req.is_empty() => schema_names.iter().filter(|n| req.contains(n)).cloned().collect(),
        _ => schema_names.clone(),
    };
    {
        let mut a = payload_cols.clone();
        a.sort();
        a.dedup();
        let mut b = expected_cols.clone();
        b.sort();
        if a != b && !(requested.is_some() && expected_cols.is_empty()) {
            return Err(Verdict::fail("return-columns", json!({"cmd": what, "got_columns": payload_cols, "expected": expected_cols, "log": log()})));
        }
        if payload_cols.len() != a.len() {
            return Err(Verdict::fail("duplicate-column", json!({"cmd": what, "got_columns": payload_cols, "log": log()})));
        }
    }
    let mut seen = std::collections::BTreeSet::new();
    for row in &r.rows {
        // identify the event: by tag, else by event id
        let idx = match row_k(row) {
            Some(k) => w.model.events.iter().position(|e| e.k == k),
            None => {
                let id = r.col("event_id").and_then(|i| row.get(i)).and_then(|v| v.as_u64());
                match (id, by_id) {
                    (Some(id), Some(m)) => m.get(&id).cloned(),
                    _ => None,
                }
            }
        };
        let Some(idx) = idx else {
            return Err(Verdict::fail("unidentified-row", json!({"cmd": what, "row": row, "columns": r.columns, "log": log()})));
        };
        if !seen.insert(idx) {
            return Err(Verdict::fail("duplicate-row", json!({"cmd": what, "row": row, "log": log()})));
        }
        let e = &w.model.events[idx];
        // core fields
        let ctxv = row[r.col("context_id").unwrap()].clone();
        let tyv = row[r.col("event_type").unwrap()].clone();
        let tsv = row[r.col("timestamp").unwrap()].clone();
        let idv = row[r.col("event_id").unwrap()].as_u64().unwrap_or(0);
        if ctxv.as_str() != Some(e.ctx.as_str()) || tyv.as_str() != Some(c.td.name.as_str()) {
            return Err(Verdict::fail("core-field-altered", json!({"cmd": what, "row": row, "expected_ctx": e.ctx, "log": log()})));
        }
        if let Some(s) = e.secs {
            if tsv.as_u64() != Some(s) {
                return Err(Verdict::fail("timestamp-altered", json!({"cmd": what, "row": row, "expected": s, "log": log()})));
            }
        }
        match core_seen.get(&e.k) {
            None => {
                core_seen.insert(e.k, (e.ctx.clone(), c.td.name.clone(), tsv.clone(), idv));
            }
            Some((_, _, ts0, id0)) => {
                if *ts0 != tsv || *id0 != idv {
                    return Err(Verdict::fail("core-field-changed-across-tiers", json!({"cmd": what, "row": row, "first_ts": ts0, "first_id": id0, "log": log()})));
                }
            }
        }
        // payload cells by column name
        for (ci, (name, _)) in r.columns.iter().enumerate() {
            if core.contains(&name.as_str()) {
                continue;
            }
            let got = row.get(ci).cloned().unwrap_or(Value::Null);
            if name == "k" {
                if got.as_i64() != Some(e.k) {
                    return Err(Verdict::fail("cell-mismatch", json!({"cmd": what, "column": "k", "expected": e.k, "got": got, "row": row, "columns": r.columns, "log": log()})));
                }
                continue;
            }
            let Some(fi) = c.td.fields.iter().position(|f| &f.name == name) else { continue };
            let f = &c.td.fields[fi];
            let exp = &e.vals[fi];
            if !cell_ok(&f.ty, exp, &got) {
                return Err(Verdict::fail(
                    "cell-mismatch",
                    json!({"cmd": what, "column": name, "type": f.ty, "optional": f.opt, "expected": exp, "got": got, "k": e.k, "row": row, "columns": r.columns, "log": log()}),
                ));
            }
            if let Some(cl) = value_class(&f.ty, exp) {
                rep.label(cl);
                if on_disk {
                    rep.nontrivial = true;
                }
            }
        }
    }
    let want: std::collections::BTreeSet<usize> = want_events.iter().cloned().collect();
    if seen != want {
        let missing: Vec<i64> = want.difference(&seen).map(|i| w.model.events[*i].k).collect();
        let extra: Vec<i64> = seen.difference(&want).map(|i| w.model.events[*i].k).collect();
        return Err(Verdict::fail("row-set", json!({"cmd": what, "missing": missing, "extra": extra, "log": log()})));
    }
    Ok(())
}

fn run_case(c: &Case, rep: &mut CaseReport) -> Verdict {
    let types = vec![c.td.clone()];
    let mut w = match World::start("c07", &c.cfg, &types, true) {
        Ok(w) => w,
        Err(e) => {
            rep.inconclusive = Some(format!("start: {:?}", e));
            return Verdict::Discard("start failed".into());
        }
    };
    for op in &c.ops {
        if let Err(e) = w.apply(op) {
            return problem_verdict(e, &mut w, rep);
        }
    }
    let mut core_seen: BTreeMap<i64, (String, String, Value, u64)> = BTreeMap::new();
    for ci in 0..=c.tail.len() {
        if ci > 0 {
            if let Err(e) = w.apply(&c.tail[ci - 1]) {
                return problem_verdict(e, &mut w, rep);
            }
        }
        if let Err(e) = w.db.barrier() {
            return problem_verdict(Problem::Db(e), &mut w, rep);
        }
        if w.id_reused && crate::props::c02::KNOWN_ID_REUSE.load(std::sync::atomic::Ordering::Relaxed) {
            rep.excluded_known += 1;
            return Verdict::Discard("known: retired segment id re-created in the same process lifetime".into());
        }
        let layout = w.layout_labels();
        for l in &layout {
            rep.label(l.clone());
        }
        let on_disk = layout.iter().any(|l| l.starts_with("layout:l"));
        let all: Vec<usize> = (0..w.model.events.len()).collect();
        // full query
        let q = format!("QUERY {}", c.td.name);
        let r = match w.db.cmd(&q) {
            Ok(r) => r,
            Err(e) => return problem_verdict(Problem::Db(e), &mut w, rep),
        };
        rep.sub_evals += 1;
        if let Err(v) = check_rows(&q, &r, c, &w, None, None, &all, &mut core_seen, rep, on_disk) {
            return v;
        }
        let by_id: BTreeMap<u64, usize> = core_seen
            .iter()
            .filter_map(|(k, v)| w.model.events.iter().position(|e| e.k == *k).map(|i| (v.3, i)))
            .collect();
        // per-context replay
        for cx in 0..c.n_ctx {
            let name = ctx_name(cx);
            let want: Vec<usize> = w.model.events.iter().enumerate().filter(|(_, e)| e.ctx == name).map(|(i, _)| i).collect();
            let q = format!("REPLAY FOR {}", name);
            let r = match w.db.cmd(&q) {
                Ok(r) => r,
                Err(e) => return problem_verdict(Problem::Db(e), &mut w, rep),
            };
            rep.sub_evals += 1;
            if let Err(v) = check_rows(&q, &r, c, &w, Some(&by_id), None, &want, &mut core_seen, rep, on_disk) {
                return v;
            }
        }
        // RETURN lists
        for ret in &c.returns {
            let q = format!("QUERY {} RETURN [{}]", c.td.name, ret.iter().map(|s| format!("\"{}\"", s)).collect::<Vec<_>>().join(", "));
            let r = match w.db.cmd(&q) {
                Ok(r) => r,
                Err(e) => return problem_verdict(Problem::Db(e), &mut w, rep),
            };
            rep.sub_evals += 1;
            rep.label("return:list");
            if let Err(v) = check_rows(&q, &r, c, &w, Some(&by_id), Some(ret), &all, &mut core_seen, rep, on_disk) {
                return v;
            }
        }
    }
    if rep.sample.is_none() {
        rep.sample = Some(json!({
            "define": c.td.define_cmd(),
            "events": w.model.events.iter().take(3).map(|e| json!({"ctx": e.ctx, "vals": e.vals})).collect::<Vec<_>>(),
            "n_events": w.model.events.len(),
            "tail": c.tail,
            "returns": c.returns,
        }));
    }
    if !w.db.panics.is_empty() {
        return Verdict::fail("panic-in-worker", json!({"panics": w.db.panics, "log": w.db.log}));
    }
    Verdict::Pass
}

pub fn replay(_check: &str, case: &Value) -> Verdict {
    match serde_json::from_value::<Case>(case.clone()) {
        Ok(c) => run_case(&c, &mut CaseReport::default()),
        Err(e) => Verdict::Discard(format!("bad case: {}", e)),
    }
}

pub fn run(ctx: &Ctx) -> i32 {
    let stats = Mutex::new(Stats::default());
    let mut report = Report::new(
        "C07",
        "exploration",
        "generated (config, schema over every field type incl. optionals, 4-60 ops of STORE with edge-heavy values / FLUSH / barrier / compaction, 1-3 layout-changing tail ops incl. restart, 1-3 RETURN lists); at every checkpoint QUERY, REPLAY FOR each context and QUERY RETURN [...] are compared cell by cell (by column name) with the stored values, and the core fields with their first observation. Non-trivial: a cell of an edge class (|int|>2^53, u64>i64::MAX, integral/extreme float, empty / typed-looking / non-ASCII / long string) read back from an on-disk tier.",
    );
    report.assumptions = vec!["numbers are compared numerically (2 == 2.0); strings must be JSON strings, byte-identical".into()];
    replay_known(ctx, &stats, &mut report, &replay);
    replay_regressions(ctx, &stats, &mut report, &replay);
    crate::props::c02::KNOWN_ID_REUSE.store(ctx.open_any("layout.stale_cache_after_id_reuse"), std::sync::atomic::Ordering::Relaxed);
    let cases = ctx.tier.pick(80, 2000);
    if let Some(f) = explore(ctx, "roundtrip", || case_strategy(ctx), Explore { cases, max_shrink_iters: ctx.tier.pick(80, 300), lanes: ctx.lanes }, &stats, run_case) {
        report.violations.push(f);
    }
    finish(ctx, stats.into_inner().unwrap(), report)
}

pub fn regress_cases() -> Vec<(&'static str, &'static str, Value)> {
    let td = TypeDef {
        name: "ev".into(),
        fields: vec![
            FieldDef { name: "a".into(), ty: FT::Int, opt: false, alias: "int".into() },
            FieldDef { name: "b".into(), ty: FT::Float, opt: false, alias: "float".into() },
            FieldDef { name: "c".into(), ty: FT::Str, opt: false, alias: "string".into() },
        ],
    };
    let ev = |a: i64, b: f64, c: &str| Op::Store(Ev { ty: 0, ctx: 0, vals: vec![json!(a), json!(b), json!(c)] });
    let case = |ops: Vec<Op>, returns: Vec<Vec<&str>>| {
        serde_json::to_value(Case {
            cfg: DbConfig { event_per_zone: 2, fill_factor: 4, ..DbConfig::default() },
            td: td.clone(),
            n_ctx: 1,
            ops,
            tail: vec![Op::Flush],
            returns: returns.into_iter().map(|r| r.into_iter().map(|s| s.to_string()).collect()).collect(),
        })
        .unwrap()
    };
    vec![
        ("return-list-order-in-memory", "roundtrip", case(vec![ev(1, 0.5, "x"), ev(2, 1.5, "y")], vec![vec!["a", "b", "k"], vec!["c", "b", "a", "k"], vec!["b", "a"]])),
        ("brace-inside-string-payload", "roundtrip", case(vec![ev(1, 0.5, "{"), ev(2, 1.5, "a}b"), ev(3, 2.5, "q\"}\\")], vec![vec!["c"]])),
    ]
}
