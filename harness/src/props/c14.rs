//! C14 - SHOW of a remembered query equals the live query, each event once.

use crate::db::DbConfig;
use crate::fw::*;
use crate::hist::*;
use crate::props::c02::problem_verdict;
use crate::query::*;
use proptest::prelude::*;
use serde::{Deserialize, Serialize};
use serde_json::{Value, json};
use std::sync::Mutex;

#[derive(Clone, Debug, Serialize, Deserialize)]
pub enum MOp {
    Store(Ev),
    Clock(u32),
    Flush,
    Barrier,
    Compact(u8),
    Restart,
    Show,
    /// SHOW twice in a row (no new data in between)
    ShowTwice,
    RememberAgain,
}

#[derive(Clone, Debug, Serialize, Deserialize)]
pub struct Case {
    pub cfg: DbConfig,
    pub td: TypeDef,
    pub n_ctx: usize,
    pub before: Vec<MOp>,
    pub wh: Option<WExpr>,
    pub ctx: Option<usize>,
    pub ret_k: bool,
    pub after: Vec<MOp>,
}

fn show_typedef() -> TypeDef {
    let f = |n: &str, ty: FT| FieldDef { name: n.into(), alias: aliases(&ty)[0].to_string(), ty, opt: false };
    TypeDef { name: "ev".into(), fields: vec![f("x", FT::Int), f("e", FT::Enum(vec!["v0".into(), "v1".into()]))] }
}

#[derive(Clone, Copy)]
struct Excl {
    restart: bool,
    compaction: bool,
    same_second: bool,
    flush_between: bool,
    where_not_returned: bool,
}

fn case_strategy(tier: Tier, ex: Excl, wx: crate::props::c02::WhereExcl) -> BoxedStrategy<Case> {
    let td = show_typedef();
    (1usize..=3, 1usize..=3, 1usize..=3, 2usize..=4)
        .prop_flat_map(move |(shards, epz, ff, n_ctx)| {
            let cfg = DbConfig { shard_count: shards, event_per_zone: epz, fill_factor: ff, ..DbConfig::default() };
            let td = td.clone();
            let ev = (0..n_ctx, -2i64..4, 0usize..2).prop_map(|(ctx, x, e)| Ev { ty: 0, ctx, vals: vec![json!(x), json!(format!("v{}", e))] });
            let op = move |with_show: bool| {
                prop_oneof![
                    30 => ev.clone().prop_map(MOp::Store),
                    6 => (0u32..12).prop_map(MOp::Clock),
                    3 => Just(if ex.flush_between && with_show { MOp::Barrier } else { MOp::Flush }),
                    2 => Just(MOp::Barrier),
                    2 => (1u8..=2).prop_map(move |n| if ex.compaction { MOp::Barrier } else { MOp::Compact(n) }),
                    1 => Just(if ex.restart { MOp::Barrier } else { MOp::Restart }),
                    if with_show { 8 } else { 1 } => Just(if with_show { MOp::Show } else { MOp::Barrier }),
                    if with_show { 3 } else { 1 } => Just(if with_show { MOp::ShowTwice } else { MOp::Barrier }),
                    1 => Just(if with_show { MOp::RememberAgain } else { MOp::Barrier }),
                ]
            };
            // one case in five REMEMBERs on an empty store (nothing before it): the materialisation starts without a
            // high-water mark and everything arrives through refreshes
            let wh = where_strategy(&td, 2);
            (Just(cfg), Just(td), Just(n_ctx), prop_oneof![1 => Just(Vec::<MOp>::new()), 4 => prop::collection::vec(op(false), 4..=tier.pick(20, 40))], opt_w(0.6, wh), opt_w(0.3, 0..n_ctx), any::<bool>(), prop::collection::vec(op(true), 4..=tier.pick(30, 60)))
        })
        .prop_map(move |(cfg, td, n_ctx, before, wh, ctx, ret_k, after)| {
            let wh = wh.filter(|w| !wx.excluded(&td, w));
            let ret_k = if ex.where_not_returned && wh.is_some() { false } else { ret_k };
            Case { cfg, td, n_ctx, before, wh, ctx, ret_k, after }
        })
        .boxed()
}

fn query_text(c: &Case) -> String {
    let mut s = format!("QUERY {}", c.td.name);
    if let Some(cx) = c.ctx {
        s.push_str(&format!(" FOR {}", ctx_name(cx)));
    }
    if c.ret_k {
        s.push_str(" RETURN [k]");
    }
    if let Some(w) = &c.wh {
        s.push_str(&format!(" WHERE {}", w.print()));
    }
    s
}

/// while the finding "event on the high-water second" is open, exploration moves the clock to the next
/// second after every REMEMBER / SHOW (so no later event shares the high-water second)
pub static SKIP_EMPTY_REMEMBER: std::sync::atomic::AtomicBool = std::sync::atomic::AtomicBool::new(false);
pub static ADVANCE_AFTER_SHOW: std::sync::atomic::AtomicBool = std::sync::atomic::AtomicBool::new(false);

fn run_case(c: &Case, rep: &mut CaseReport) -> Verdict {
    let types = vec![c.td.clone()];
    let mut w = match World::start("c14", &c.cfg, &types, true) {
        Ok(w) => w,
        Err(e) => {
            rep.inconclusive = Some(format!("start: {:?}", e));
            return Verdict::Discard("start failed".into());
        }
    };
    let q = query_text(c);
    let mut remembered = false;
    let mut shows = 0;
    let mut stored_since_remember = 0;
    let mut layout_change_since_remember = false;
    let mut high_water_hit = false;
    let mut last_show_clock: Option<u64> = None;
    let all: Vec<&MOp> = c.before.iter().chain(std::iter::once(&MOp::RememberAgain)).chain(c.after.iter()).collect();
    for (oi, op) in all.iter().enumerate() {
        let is_first_remember = oi == c.before.len();
        let r: Result<(), Problem> = (|| {
            match op {
                MOp::Store(ev) => {
                    w.store(ev)?;
                    if ADVANCE_AFTER_SHOW.load(std::sync::atomic::Ordering::Relaxed) {
                        // open finding: two events of one second between refreshes; keep seconds distinct
                        let off = w.clock.map(|c| c - w.base_secs).unwrap_or(0) as u32 + 1;
                        w.apply(&Op::Clock(off))?;
                    }
                    if remembered {
                        stored_since_remember += 1;
                        if last_show_clock.is_some() && last_show_clock == w.clock {
                            high_water_hit = true;
                        }
                    }
                }
                MOp::Clock(cx) => w.apply(&Op::Clock(*cx))?,
                MOp::Flush => {
                    w.apply(&Op::Flush)?;
                    if remembered {
                        layout_change_since_remember = true;
                    }
                }
                MOp::Barrier => w.apply(&Op::Barrier)?,
                MOp::Compact(n) => {
                    w.apply(&Op::Compact(*n))?;
                    if remembered {
                        layout_change_since_remember = true;
                    }
                }
                MOp::Restart => {
                    w.apply(&Op::Restart)?;
                    if remembered {
                        layout_change_since_remember = true;
                    }
                }
                _ => {}
            }
            Ok(())
        })();
        if let Err(e) = r {
            return problem_verdict(e, &mut w, rep);
        }
        if w.id_reused && crate::props::c02::KNOWN_ID_REUSE.load(std::sync::atomic::Ordering::Relaxed) {
            rep.excluded_known += 1;
            return Verdict::Discard("known: retired segment id re-created in the same process lifetime".into());
        }
        match op {
            MOp::RememberAgain => {
                if let Err(e) = w.db.barrier() {
                    return problem_verdict(Problem::Db(e), &mut w, rep);
                }
                if is_first_remember && SKIP_EMPTY_REMEMBER.load(std::sync::atomic::Ordering::Relaxed) {
                    let live = match w.db.cmd(&q) {
                        Ok(r) => ks_of(&r),
                        Err(e) => return problem_verdict(Problem::Db(e), &mut w, rep),
                    };
                    if live.is_empty() {
                        rep.excluded_known += 1;
                        return Verdict::Discard("known: REMEMBER of a query with an empty result".into());
                    }
                }
                let cmd = format!("REMEMBER {} AS m1", q);
                let r = match w.db.cmd(&cmd) {
                    Ok(r) => r,
                    Err(e) => return problem_verdict(Problem::Db(e), &mut w, rep),
                };
                if is_first_remember {
                    if r.is_error() {
                        return Verdict::fail("remember-failed", json!({"cmd": cmd, "status": r.status, "message": r.message, "parse_error": r.parse_error, "log": w.db.log}));
                    }
                    remembered = true;
                    last_show_clock = w.clock;
                } else if !r.is_error() {
                    return Verdict::fail("remember-under-existing-name-accepted", json!({"cmd": cmd, "status": r.status, "message": r.message, "log": w.db.log}));
                }
            }
            MOp::Show | MOp::ShowTwice => {
                if !remembered {
                    continue;
                }
                if let Err(e) = w.db.barrier() {
                    return problem_verdict(Problem::Db(e), &mut w, rep);
                }
                let rounds = if matches!(op, MOp::ShowTwice) { 2 } else { 1 };
                let mut prev: Option<Vec<i64>> = None;
                for round in 0..rounds {
                    let rs = match w.db.cmd("SHOW m1") {
                        Ok(r) => r,
                        Err(e) => return problem_verdict(Problem::Db(e), &mut w, rep),
                    };
                    let rq = match w.db.cmd(&q) {
                        Ok(r) => r,
                        Err(e) => return problem_verdict(Problem::Db(e), &mut w, rep),
                    };
                    rep.sub_evals += 1;
                    shows += 1;
                    if !rs.panics.is_empty() {
                        return Verdict::fail("panic", json!({"cmd": "SHOW m1", "panics": rs.panics, "log": w.db.log}));
                    }
                    let mut live = ks_of(&rq);
                    live.sort();
                    if rs.is_error() && !live.is_empty() {
                        return Verdict::fail("show-error", json!({"status": rs.status, "message": rs.message, "live": live, "log": w.db.log}));
                    }
                    let mut shown = ks_of(&rs);
                    shown.sort();
                    if shown != live {
                        let dup = shown.windows(2).any(|p| p[0] == p[1]);
                        let sig = if dup { "show-duplicates" } else if shown.len() < live.len() { "show-misses-events" } else { "show-extra-events" };
                        return Verdict::fail(sig, json!({"query": q, "shown": shown, "live": live, "round": round, "clock": w.clock.map(|c| c - w.base_secs), "events": w.model.events.iter().map(|e| json!({"k": e.k, "secs": e.secs.map(|s| s - w.base_secs), "ctx": e.ctx, "vals": e.vals})).collect::<Vec<_>>(), "log": w.db.log}));
                    }
                    if let Some(p) = &prev {
                        if *p != shown {
                            return Verdict::fail("repeated-show-differs", json!({"first": p, "second": shown, "log": w.db.log}));
                        }
                    }
                    prev = Some(shown);
                }
                if stored_since_remember > 0 && (high_water_hit || layout_change_since_remember || c.cfg.shard_count > 1) {
                    rep.nontrivial = true;
                }
                last_show_clock = w.clock;
            }
            _ => {}
        }
        if matches!(op, MOp::Show | MOp::ShowTwice | MOp::RememberAgain) && remembered && ADVANCE_AFTER_SHOW.load(std::sync::atomic::Ordering::Relaxed) {
            let off = w.clock.map(|c| c - w.base_secs).unwrap_or(0) as u32 + 1;
            if let Err(e) = w.apply(&Op::Clock(off)) {
                return problem_verdict(e, &mut w, rep);
            }
            rep.excluded_known += 1;
        }
    }
    if high_water_hit {
        rep.label("event-on-high-water-second");
    }
    if layout_change_since_remember {
        rep.label("layout-change-after-remember");
    }
    rep.sample = Some(json!({"query": q, "shards": c.cfg.shard_count, "capacity": c.cfg.capacity(), "events": w.model.events.len(), "shows": shows,
        "ops_after_remember": c.after.iter().map(|o| match o { MOp::Store(_) => "S", MOp::Clock(_) => "t", MOp::Flush => "F", MOp::Compact(_) => "C", MOp::Restart => "R", MOp::Show => "?", MOp::ShowTwice => "??", MOp::RememberAgain => "M", MOp::Barrier => "b" }).collect::<Vec<_>>().join("")}));
    if !w.db.panics.is_empty() {
        return Verdict::fail("panic-in-worker", json!({"panics": w.db.panics, "log": w.db.log}));
    }
    Verdict::Pass
}

pub fn replay(_check: &str, case: &Value) -> Verdict {
    match serde_json::from_value::<Case>(case.clone()) {
        Ok(c) => run_case(&c, &mut CaseReport::default()),
        Err(e) => Verdict::Discard(format!("bad case: {}", e)),
    }
}

pub fn run(ctx: &Ctx) -> i32 {
    let stats = Mutex::new(Stats::default());
    let mut report = Report::new(
        "C14",
        "exploration",
        "generated (config, selection query q with WHERE / FOR / RETURN, events before REMEMBER, then 4-60 ops of STORE / clock step (non-decreasing seconds with repeats) / FLUSH / compaction / restart / SHOW / SHOW twice / REMEMBER again); every SHOW m1 is compared, as a multiset of k, with QUERY q issued back to back on the quiescent state; a repeated SHOW must return the same rows; REMEMBER under the existing name must be rejected. Non-trivial: events arrived after REMEMBER and (an event on the second of the last SHOW, or a layout change after REMEMBER, or several shards).",
    );
    report.assumptions = vec!["the STORE clock is the hook clock (fake <= real); SHOW and QUERY are compared at quiescent states".into()];
    replay_known(ctx, &stats, &mut report, &replay);
    replay_regressions(ctx, &stats, &mut report, &replay);
    SKIP_EMPTY_REMEMBER.store(ctx.open("show.remember_on_empty_result"), std::sync::atomic::Ordering::Relaxed);
    ADVANCE_AFTER_SHOW.store(ctx.open("show.event_on_high_water_second"), std::sync::atomic::Ordering::Relaxed);
    // (restarts: also excluded while C01's findings that store events twice across a clean restart are open - the
    // materialisation does not de-duplicate by id, the live QUERY does)
    let ex = Excl { restart: ctx.open("show.after_restart") || ctx.open_any("crash.after_manual_flush_or_clean_restart") || ctx.open_any("crash.store_after_compaction_and_restart"), compaction: ctx.open("show.after_compaction"), same_second: ctx.open("show.event_on_high_water_second"), flush_between: ctx.open("show.flush_after_remember"), where_not_returned: ctx.open("show.where_field_not_returned") };
    crate::props::c02::KNOWN_ID_REUSE.store(ctx.open_any("layout.stale_cache_after_id_reuse"), std::sync::atomic::Ordering::Relaxed);
    let wx = crate::props::c02::WhereExcl::from_ctx_any(ctx);
    let cases = ctx.tier.pick(240, 1500);
    let tier = ctx.tier;
    if let Some(f) = explore(ctx, "show-vs-query", || case_strategy(tier, ex, wx), Explore { cases, max_shrink_iters: ctx.tier.pick(100, 400), lanes: ctx.lanes }, &stats, run_case) {
        report.violations.push(f);
    }
    finish(ctx, stats.into_inner().unwrap(), report)
}
