//! C03 - reads see every applied write exactly once at every stage of its flush.
//! The harness owns the schedule at the hook pause points of the flush pipeline.

use crate::db::DbConfig;
use crate::fw::*;
use crate::hist::*;
use crate::props::c01::{simple_ev, simple_types};
use crate::props::c02::problem_verdict;
use proptest::prelude::*;
use serde::{Deserialize, Serialize};
use serde_json::{Value, json};
use std::collections::BTreeSet;
use std::sync::Mutex;

/// async step boundaries of the flush pipeline at which the flush worker can be parked
pub const PAUSE_STEPS: &[&str] = &[
    "flush.dequeued",
    "flusher.mkdir",
    "zw.zones",
    "zw.cols",
    "zw.temporal",
    "zw.filters",
    "zw.idx",
    "flusher.type_written",
    "flusher.before_index",
    "flush.written",
    "flush.verified",
    "flush.published",
    "flush.passive_cleared",
    "flush.wal_cleaned",
    "flush.task_done",
    "wal.before_append",
    "wal.appended",
];

#[derive(Clone, Debug, Serialize, Deserialize)]
pub struct Case {
    pub cfg: DbConfig,
    pub n_types: usize,
    pub n_ctx: usize,
    /// events stored before the schedule starts (settled with a barrier)
    pub prefix: Vec<Ev>,
    /// schedule: park at (step, nth crossing), storing events until parked, read, release
    pub parks: Vec<(u8, u8)>,
    pub events: Vec<Ev>,
    /// per park: how many more events are stored while the worker is parked (rotations pile up as passive buffers)
    #[serde(default)]
    pub extras: Vec<u8>,
}

fn case_strategy(tier: Tier, steps: Vec<u8>, single_type: bool, single_shard: bool) -> BoxedStrategy<Case> {
    (1usize..=if single_shard { 1 } else { 2 }, 1usize..=3, 1usize..=2, 1usize..=2, 1usize..=3, prop::sample::select(vec![1usize, 2, 3, 8]))
        .prop_flat_map(move |(shards, epz, ff, n_types, n_ctx, mip)| {
            let n_types = if single_type { 1 } else { n_types };
            let cfg = DbConfig { shard_count: shards, event_per_zone: epz, fill_factor: ff, max_inflight_passives: mip, ..DbConfig::default() };
            let cap = cfg.capacity();
            (
                Just(cfg),
                Just(n_types),
                Just(n_ctx),
                prop::collection::vec(simple_ev(n_types, n_ctx), 0..=cap * 2),
                prop::collection::vec((prop::sample::select(steps.clone()), 1u8..=2), 1..=tier.pick(3, 5)),
                prop::collection::vec(simple_ev(n_types, n_ctx), cap * 2..=cap * 8 + 4 + cap * (mip.min(3) + 2) * 2),
                prop::collection::vec(prop_oneof![2 => 0u8..=3, 1 => (0..=(cap * (mip.min(3) + 2)).min(40) as u8)], 5),
            )
        })
        .prop_map(|(cfg, n_types, n_ctx, prefix, parks, events, extras)| Case { cfg, n_types, n_ctx, prefix, parks, events, extras })
        .boxed()
}

/// All reads of one observation; every applied event exactly once.
fn reads(w: &mut World, types: &[TypeDef], n_ctx: usize, at: &str, count_ok: bool, rep: &mut CaseReport) -> Result<Option<(String, Value)>, Problem> {
    for (ti, t) in types.iter().enumerate() {
        let want: BTreeSet<i64> = w.model.events.iter().filter(|e| e.ty == ti).map(|e| e.k).collect();
        let q = format!("QUERY {} RETURN [k]", t.name);
        let r = w.db.cmd(&q)?;
        rep.sub_evals += 1;
        if !r.panics.is_empty() {
            return Ok(Some(("panic".into(), json!({"at": at, "cmd": q, "panics": r.panics, "log": w.db.log}))));
        }
        if r.is_error() && !want.is_empty() {
            return Ok(Some(("error-response".into(), json!({"at": at, "cmd": q, "status": r.status, "message": r.message, "log": w.db.log}))));
        }
        if r.streamed && r.rows.iter().any(|row| row_k(row).is_none()) {
            return Ok(Some(("row-without-tag".into(), json!({"at": at, "cmd": q, "rows": r.rows, "log": w.db.log}))));
        }
        let rows = ks_of(&r);
        let got: BTreeSet<i64> = rows.iter().cloned().collect();
        if got.len() != rows.len() {
            return Ok(Some(("seen-twice".into(), json!({"at": at, "cmd": q, "rows": rows, "log": w.db.log}))));
        }
        if got != want {
            let missing: Vec<i64> = want.difference(&got).cloned().collect();
            let extra: Vec<i64> = got.difference(&want).cloned().collect();
            return Ok(Some((if !missing.is_empty() { "seen-zero-times" } else { "unknown-event" }.into(), json!({"at": at, "cmd": q, "missing": missing, "extra": extra, "log": w.db.log}))));
        }
        // paging: an unordered selection that skips m rows shows each of the remaining events once - exactly |events| - m
        // distinct rows (which ones is not specified)
        let n = want.len();
        let mut offsets = vec![1usize, n / 2, n];
        offsets.sort();
        offsets.dedup();
        for m in offsets.into_iter().filter(|m| *m >= 1 && n >= 1) {
            let qp = format!("QUERY {} RETURN [k] LIMIT 100000 OFFSET {}", t.name, m);
            let rp = w.db.cmd(&qp)?;
            rep.sub_evals += 1;
            let rows = ks_of(&rp);
            let got: BTreeSet<i64> = rows.iter().cloned().collect();
            if got.len() != rows.len() {
                return Ok(Some(("seen-twice".into(), json!({"at": at, "cmd": qp, "rows": rows, "log": w.db.log}))));
            }
            if !got.is_subset(&want) {
                return Ok(Some(("unknown-event".into(), json!({"at": at, "cmd": qp, "rows": rows, "log": w.db.log}))));
            }
            if rows.len() != n.saturating_sub(m) {
                return Ok(Some(("page-size".into(), json!({"at": at, "cmd": qp, "returned": rows.len(), "events": n, "offset": m, "log": w.db.log}))));
            }
        }
        if count_ok {
            let qc = format!("QUERY {} COUNT", t.name);
            let rc = w.db.cmd(&qc)?;
            rep.sub_evals += 1;
            let cnt = if rc.streamed { rc.rows.first().and_then(|r| r.first()).and_then(|v| v.as_i64()).unwrap_or(0) } else { 0 };
            if cnt != want.len() as i64 {
                return Ok(Some(("count-differs-from-selection".into(), json!({"at": at, "cmd": qc, "count": cnt, "selection": want.len(), "log": w.db.log}))));
            }
            let qb = format!("QUERY {} COUNT BY context_id", t.name);
            let rb = w.db.cmd(&qb)?;
            rep.sub_evals += 1;
            let sum: i64 = if rb.streamed {
                let ni = rb.col("count").unwrap_or(1);
                rb.rows.iter().map(|r| r.get(ni).and_then(|v| v.as_i64()).unwrap_or(0)).sum()
            } else {
                0
            };
            if sum != want.len() as i64 {
                return Ok(Some(("group-counts-differ-from-selection".into(), json!({"at": at, "cmd": qb, "sum": sum, "selection": want.len(), "rows": rb.rows, "log": w.db.log}))));
            }
        }
        for cx in 0..n_ctx {
            let name = ctx_name(cx);
            let want: BTreeSet<i64> = w.model.events.iter().filter(|e| e.ty == ti && e.ctx == name).map(|e| e.k).collect();
            let q = format!("REPLAY {} FOR {} RETURN [k]", t.name, name);
            let r = w.db.cmd(&q)?;
            rep.sub_evals += 1;
            let rows = ks_of(&r);
            let got: BTreeSet<i64> = rows.iter().cloned().collect();
            if got.len() != rows.len() || got != want {
                return Ok(Some(("replay-membership".into(), json!({"at": at, "cmd": q, "got": rows, "want": want, "log": w.db.log}))));
            }
        }
    }
    Ok(None)
}

pub static AGG_IN_WINDOW_OK: std::sync::atomic::AtomicBool = std::sync::atomic::AtomicBool::new(true);
pub static RACING_OK: std::sync::atomic::AtomicBool = std::sync::atomic::AtomicBool::new(true);
pub static COUNT_OK: std::sync::atomic::AtomicBool = std::sync::atomic::AtomicBool::new(true);

fn run_case(c: &Case, rep: &mut CaseReport) -> Verdict {
    let types = simple_types()[..c.n_types].to_vec();
    let mut w = match World::start("c03", &c.cfg, &types, false) {
        Ok(w) => w,
        Err(e) => {
            rep.inconclusive = Some(format!("start: {:?}", e));
            return Verdict::Discard("start failed".into());
        }
    };
    w.db.watchdog = std::time::Duration::from_secs(20);
    let count_ok = COUNT_OK.load(std::sync::atomic::Ordering::Relaxed) || c.n_types == 1;
    for e in &c.prefix {
        if let Err(p) = w.store(e) {
            return problem_verdict(p, &mut w, rep);
        }
    }
    if let Err(e) = w.db.barrier() {
        return problem_verdict(Problem::Db(e), &mut w, rep);
    }
    let mut evs = c.events.iter();
    let mut parked_reads = 0;
    for (pi, (step, nth)) in c.parks.iter().enumerate() {
        let name = PAUSE_STEPS[*step as usize % PAUSE_STEPS.len()];
        if let Err(e) = w.db.req(json!({"op":"arm_pause","step":name,"nth":*nth})) {
            return problem_verdict(Problem::Db(e), &mut w, rep);
        }
        // store until the worker is parked
        let mut parked = false;
        loop {
            let p = match w.db.req(json!({"op":"parked","wait_ms":30})) {
                Ok(v) => v,
                Err(e) => return problem_verdict(Problem::Db(e), &mut w, rep),
            };
            if p["parked"].is_string() {
                parked = true;
                break;
            }
            match evs.next() {
                Some(e) => {
                    if let Err(p) = w.store(e) {
                        return problem_verdict(p, &mut w, rep);
                    }
                }
                None => break,
            }
        }
        if !parked {
            let _ = w.db.req(json!({"op":"disarm"}));
            rep.label("park:not-reached");
            break;
        }
        rep.label(format!("parked:{}", name));
        // a few more writes while the flush is parked (they go to the fresh active memtable / queue)
        let extra = c.extras.get(pi).cloned().unwrap_or(2) as usize;
        if extra > c.cfg.capacity() * c.cfg.max_inflight_passives {
            rep.label("parked:rotations-beyond-max-inflight-passives");
        }
        for _ in 0..extra {
            if let Some(e) = evs.next() {
                if name.starts_with("wal.") {
                    break; // WAL task parked: appends queue up behind it, stores still acknowledge
                }
                if let Err(p) = w.store(e) {
                    return problem_verdict(p, &mut w, rep);
                }
            }
        }
        if name.starts_with("wal.") {
            // the flush worker is not the parked task: let running flushes finish, so that the read is
            // not racing with one (racing reads are a separate, gated part of this check)
            if let Err(e) = w.db.req(json!({"op":"flush_barrier"})) {
                return problem_verdict(Problem::Db(e), &mut w, rep);
            }
        }
        // between "columns written" and "passive buffer released" the rotated events are readable
        // from the passive buffer and from the in-flight segment (open finding: aggregates count twice)
        let in_window = matches!(name, "zw.cols" | "zw.temporal" | "zw.filters" | "zw.idx" | "flusher.type_written" | "flusher.before_index" | "flush.written" | "flush.verified" | "flush.published");
        let agg_here = count_ok && (!in_window || AGG_IN_WINDOW_OK.load(std::sync::atomic::Ordering::Relaxed));
        if count_ok && !agg_here {
            rep.excluded_known += 1;
        }
        match reads(&mut w, &types, c.n_ctx, &format!("parked:{}#{}", name, nth), agg_here, rep) {
            Ok(Some((s, d))) => return Verdict::fail(s, d),
            Ok(None) => {}
            Err(e) => return problem_verdict(e, &mut w, rep),
        }
        parked_reads += 1;
        if !name.starts_with("wal.") && name != "flush.dequeued" && name != "flush.task_done" {
            rep.nontrivial = true;
        }
        if let Err(e) = w.db.req(json!({"op":"release"})) {
            return problem_verdict(Problem::Db(e), &mut w, rep);
        }
        // reads immediately after the release race with the rest of the flush
        if !RACING_OK.load(std::sync::atomic::Ordering::Relaxed) {
            rep.excluded_known += 1;
            if let Err(e) = w.db.barrier() {
                return problem_verdict(Problem::Db(e), &mut w, rep);
            }
            continue;
        }
        match reads(&mut w, &types, c.n_ctx, &format!("released:{}#{}", name, nth), count_ok, rep) {
            Ok(Some((s, d))) => return Verdict::fail(format!("racing:{}", s), d),
            Ok(None) => {}
            Err(e) => return problem_verdict(e, &mut w, rep),
        }
    }
    // settle and read again
    if let Err(e) = w.db.barrier() {
        return problem_verdict(Problem::Db(e), &mut w, rep);
    }
    match reads(&mut w, &types, c.n_ctx, "settled", count_ok, rep) {
        Ok(Some((s, d))) => return Verdict::fail(format!("settled:{}", s), d),
        Ok(None) => {}
        Err(e) => return problem_verdict(e, &mut w, rep),
    }
    rep.sample = Some(json!({"config": {"shards": c.cfg.shard_count, "capacity": c.cfg.capacity()}, "prefix": c.prefix.len(), "parks": c.parks.iter().map(|(s, n)| format!("{}#{}", PAUSE_STEPS[*s as usize % PAUSE_STEPS.len()], n)).collect::<Vec<_>>(), "events": w.model.events.len(), "parked_reads": parked_reads}));
    if !w.db.panics.is_empty() {
        return Verdict::fail("panic-in-worker", json!({"panics": w.db.panics, "log": w.db.log}));
    }
    Verdict::Pass
}

/// A flush that FAILS (its segment directory cannot be created) keeps its passive buffer; the events stay readable from it
/// while later rotations of the same shard flush successfully.
#[derive(Clone, Debug, Serialize, Deserialize)]
pub struct FailCase {
    pub cfg: DbConfig,
    pub n_ctx: usize,
    /// stored while a regular file sits where the first L0 segment directory (00000) of every shard would be created
    pub first: Vec<Ev>,
    /// stored after the obstacle was removed
    pub second: Vec<Ev>,
    /// the failing flush: segment directory is a regular file
    pub failed_flush: bool,
}

fn fail_case_strategy() -> BoxedStrategy<FailCase> {
    (1usize..=2, 1usize..=3, 1usize..=2, 1usize..=3)
        .prop_flat_map(|(shards, epz, ff, n_ctx)| {
            let cfg = DbConfig { shard_count: shards, event_per_zone: epz, fill_factor: ff, ..DbConfig::default() };
            let cap = cfg.capacity();
            (Just(cfg), Just(n_ctx), prop::collection::vec(simple_ev(1, n_ctx), cap..=cap * 3 * shards), prop::collection::vec(simple_ev(1, n_ctx), cap..=cap * 4 * shards))
        })
        .prop_map(|(cfg, n_ctx, first, second)| FailCase { cfg, n_ctx, first, second, failed_flush: true })
        .boxed()
}

fn run_fail_case(c: &FailCase, rep: &mut CaseReport) -> Verdict {
    let types = simple_types()[..1].to_vec();
    let mut w = match World::start("c03f", &c.cfg, &types, false) {
        Ok(w) => w,
        Err(e) => {
            rep.inconclusive = Some(format!("start: {:?}", e));
            return Verdict::Discard("start failed".into());
        }
    };
    w.db.watchdog = std::time::Duration::from_secs(20);
    let mut obstacles = vec![];
    for s in 0..c.cfg.shard_count {
        let d = w.case.path.join("cols").join(format!("shard-{}", s));
        let _ = std::fs::create_dir_all(&d);
        let o = d.join("00000");
        if o.exists() || std::fs::write(&o, b"obstacle").is_err() {
            return Verdict::Discard("obstacle could not be placed".into());
        }
        obstacles.push(o);
    }
    let cap = c.cfg.capacity();
    let mut per_shard = vec![0usize; c.cfg.shard_count];
    for e in &c.first {
        if let Err(p) = w.store(e) {
            return problem_verdict(p, &mut w, rep);
        }
        if let Some(m) = w.model.events.last() {
            per_shard[m.shard] += 1;
        }
    }
    if let Err(e) = w.db.barrier() {
        return problem_verdict(Problem::Db(e), &mut w, rep);
    }
    let failed_shards: Vec<usize> = (0..c.cfg.shard_count).filter(|s| per_shard[*s] >= cap && obstacles[*s].is_file()).collect();
    rep.sub_evals += 1;
    match reads(&mut w, &types, c.n_ctx, "after-failed-flush", true, rep) {
        Ok(Some((s, d))) => return Verdict::fail(format!("{} (failed flush)", s), d),
        Ok(None) => {}
        Err(e) => return problem_verdict(e, &mut w, rep),
    }
    for o in &obstacles {
        if o.is_file() {
            let _ = std::fs::remove_file(o);
        }
    }
    let mut later = vec![0usize; c.cfg.shard_count];
    for (i, e) in c.second.iter().enumerate() {
        if let Err(p) = w.store(e) {
            return problem_verdict(p, &mut w, rep);
        }
        if let Some(m) = w.model.events.last() {
            later[m.shard] += 1;
        }
        // reads between the later rotations as well (every few stores)
        // (settled first: an aggregate beside a flush in flight is the class of an open finding, explored by parked-reads)
        if i % 3 == 2 {
            if let Err(e) = w.db.barrier() {
                return problem_verdict(Problem::Db(e), &mut w, rep);
            }
            rep.sub_evals += 1;
            match reads(&mut w, &types, c.n_ctx, "between-later-stores", true, rep) {
                Ok(Some((s, d))) => return Verdict::fail(format!("{} (failed flush)", s), d),
                Ok(None) => {}
                Err(e) => return problem_verdict(e, &mut w, rep),
            }
        }
    }
    if let Err(e) = w.db.barrier() {
        return problem_verdict(Problem::Db(e), &mut w, rep);
    }
    rep.sub_evals += 1;
    match reads(&mut w, &types, c.n_ctx, "after-later-successful-flush", true, rep) {
        Ok(Some((s, d))) => return Verdict::fail(format!("{} (failed flush)", s), d),
        Ok(None) => {}
        Err(e) => return problem_verdict(e, &mut w, rep),
    }
    let later_success = failed_shards.iter().any(|s| per_shard[*s] % cap + later[*s] >= cap && w.case.path.join("cols").join(format!("shard-{}", s)).read_dir().map(|d| d.flatten().any(|e| e.path().is_dir())).unwrap_or(false));
    if !failed_shards.is_empty() {
        rep.label("failed-flush:happened");
    }
    if later_success {
        rep.label("failed-flush:then-successful-flush-on-same-shard");
        rep.nontrivial = true;
    }
    rep.sample = Some(json!({"config": {"shards": c.cfg.shard_count, "capacity": cap}, "first": c.first.len(), "second": c.second.len(), "failed_shards": failed_shards, "later_success": later_success}));
    if !w.db.panics.is_empty() {
        return Verdict::fail("panic-in-worker", json!({"panics": w.db.panics, "log": w.db.log}));
    }
    Verdict::Pass
}

pub fn replay(_check: &str, case: &Value) -> Verdict {
    if case.get("failed_flush").is_some() {
        return match serde_json::from_value::<FailCase>(case.clone()) {
            Ok(c) => run_fail_case(&c, &mut CaseReport::default()),
            Err(e) => Verdict::Discard(format!("bad case: {}", e)),
        };
    }
    match serde_json::from_value::<Case>(case.clone()) {
        Ok(c) => run_case(&c, &mut CaseReport::default()),
        Err(e) => Verdict::Discard(format!("bad case: {}", e)),
    }
}

pub fn run(ctx: &Ctx) -> i32 {
    let stats = Mutex::new(Stats::default());
    let mut report = Report::new(
        "C03",
        "exploration",
        "generated (config with small capacity, settled prefix, schedule of 1-5 pause points (step, nth crossing) over the async step boundaries of the flush worker / flusher / zone writer / index save / publication / passive release / WAL pruning / WAL task, store sequence causing 1-8 rotations); with the worker parked at each step the driver stores two more events and issues QUERY RETURN [k], the same with LIMIT .. OFFSET m (m = 1, half, all: |events| - m distinct rows), COUNT, COUNT BY context_id and typed REPLAY per context; again right after the release (racing) and after settling. Every acknowledged event must be seen exactly once; COUNT and group sums must equal the selection. Non-trivial: a read while parked strictly inside the flush (after dequeue, before the flush task finished).",
    );
    report.assumptions = vec!["the schedule is owned only at hook points; pre-emption between two hook points is sampled by the racing read after each release, not enumerated".into()];
    replay_known(ctx, &stats, &mut report, &replay);
    replay_regressions(ctx, &stats, &mut report, &replay);
    AGG_IN_WINDOW_OK.store(!ctx.open("park.aggregate_in_inflight_window"), std::sync::atomic::Ordering::Relaxed);
    RACING_OK.store(!ctx.open("race.read_during_unparked_flush"), std::sync::atomic::Ordering::Relaxed);
    COUNT_OK.store(!ctx.open_any("agg.special_fields_skipped"), std::sync::atomic::Ordering::Relaxed);
    let excluded: Vec<String> = ctx.findings().iter().filter(|k| k.status == "open" && k.class.starts_with("park:")).map(|k| k.class[5..].to_string()).collect();
    let steps: Vec<u8> = (0..PAUSE_STEPS.len() as u8).filter(|i| !excluded.iter().any(|e| e == PAUSE_STEPS[*i as usize])).collect();
    let cases = ctx.tier.pick(200, 1500);
    let tier = ctx.tier;
    // with several types the flush writes them one after the other: while it is parked inside the second type the
    // first is already readable twice (same open finding as the in-flight window), so the window would be any step
    let single = ctx.open_any("agg.special_fields_skipped") || ctx.open("park.aggregate_in_inflight_window");
    // with several shards the other shard's flush worker runs free while one is parked (racing reads)
    let single_shard = ctx.open("race.read_during_unparked_flush");
    if matches!(ctx.tier, Tier::Thorough) {
        // the complete table: every pause step x its 1st..3rd crossing over a fixed store shape
        let mut n = 0;
        for (step, nth, v, case) in enumerate_steps_cases(true, &steps) {
            n += 1;
            if let Verdict::Fail { sig, detail } = v {
                report.violations.push(Failure { check: "parked-reads".into(), sig: format!("{} [table {} nth={}]", sig, step, nth), detail, case });
                break;
            }
        }
        report.notes.push(format!("step table: {} (step, nth) cells enumerated", n));
    }
    if let Some(f) = explore(ctx, "parked-reads", || case_strategy(tier, steps.clone(), single, single_shard), Explore { cases, max_shrink_iters: ctx.tier.pick(100, 400), lanes: ctx.lanes }, &stats, run_case) {
        report.violations.push(f);
    }
    // second exploration: a flush that fails keeps its events readable, also across later successful flushes
    if report.violations.is_empty() {
        let cases2 = ctx.tier.pick(64, 600);
        if let Some(f) = explore(ctx, "failed-flush", fail_case_strategy, Explore { cases: cases2, max_shrink_iters: ctx.tier.pick(60, 300), lanes: ctx.lanes }, &stats, run_fail_case) {
            report.violations.push(f);
        }
    }
    finish(ctx, stats.into_inner().unwrap(), report)
}

/// Fixed store shape, every pause step x nth: the complete table of step boundaries (thorough tier
/// and `vcheck c03-table`).
pub fn enumerate_steps(count_ok: bool) -> Vec<(String, u8, Verdict)> {
    enumerate_steps_cases(count_ok, &(0..PAUSE_STEPS.len() as u8).collect::<Vec<u8>>()).into_iter().map(|(a, b, c, _)| (a, b, c)).collect()
}

pub fn enumerate_steps_cases(count_ok: bool, steps: &[u8]) -> Vec<(String, u8, Verdict, Value)> {
    let mut out = vec![];
    for (si, name) in PAUSE_STEPS.iter().enumerate() {
        if !steps.contains(&(si as u8)) {
            continue;
        }
        for nth in 1u8..=3 {
            let ev = |i: usize| Ev { ty: 0, ctx: i % 2, vals: vec![json!(i as i64 % 5), json!("a")] };
            let c = Case {
                cfg: DbConfig { shard_count: 1, event_per_zone: 1, fill_factor: 2, ..DbConfig::default() },
                n_types: 1,
                n_ctx: 2,
                prefix: (0..3).map(ev).collect(),
                parks: vec![(si as u8, nth)],
                events: (3..15).map(ev).collect(),
                extras: vec![2],
            };
            let _ = count_ok;
            let mut rep = CaseReport::default();
            let v = run_case(&c, &mut rep);
            out.push((name.to_string(), nth, v, serde_json::to_value(&c).unwrap_or(Value::Null)));
        }
    }
    out
}
