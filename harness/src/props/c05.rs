//! C05 - compaction changes layout, never content.

use crate::db::{DbConfig, DbError};
use crate::fw::*;
use crate::hist::*;
use crate::props::c01::simple_ev;
use crate::props::c02::problem_verdict;
use proptest::prelude::*;
use serde::{Deserialize, Serialize};
use serde_json::{Value, json};
use std::collections::{BTreeMap, BTreeSet};
use std::sync::Mutex;

#[derive(Clone, Debug, Serialize, Deserialize)]
pub struct Case {
    pub cfg: DbConfig,
    pub types: Vec<TypeDef>,
    pub n_ctx: usize,
    /// Store / Flush / Barrier / Compact(1) (each Compact is followed by an observation) / Restart
    pub ops: Vec<Op>,
}

pub fn three_types() -> Vec<TypeDef> {
    let mut t = crate::props::c01::simple_types();
    t.push(TypeDef {
        name: "tc".into(),
        // an optional field, left out by about half of the events (a flush then writes no column for it, or no block for a
        // zone): compaction must carry the values that are there and must not invent any
        fields: vec![FieldDef { name: "z".into(), ty: FT::Int, opt: false, alias: "int".into() }, FieldDef { name: "w".into(), ty: FT::Int, opt: true, alias: "int".into() }],
    });
    t
}

fn ev3(n_types: usize, n_ctx: usize) -> BoxedStrategy<Ev> {
    if n_types <= 2 {
        return simple_ev(n_types, n_ctx);
    }
    prop_oneof![
        2 => simple_ev(2, n_ctx),
        1 => (0..n_ctx, -3i64..4, prop::option::weighted(0.5, 1i64..4)).prop_map(|(ctx, z, w)| Ev { ty: 2, ctx, vals: vec![json!(z), w.map(|v| json!(v)).unwrap_or(Value::Null)] }),
    ]
    .boxed()
}

fn case_strategy(tier: Tier) -> BoxedStrategy<Case> {
    (1usize..=2, 1usize..=3, 1usize..=2, 2usize..=4, 2usize..=3, 2usize..=4)
        .prop_flat_map(move |(shards, epz, ff, spm, n_types, n_ctx)| {
            let cfg = DbConfig { shard_count: shards, event_per_zone: epz, fill_factor: ff, segments_per_merge: spm, ..DbConfig::default() };
            // bursts of one type, so that types live in different subsets of segments
            let burst = (0..n_types, 1usize..=5).prop_flat_map(move |(ty, n)| {
                prop::collection::vec(ev3(n_types, n_ctx).prop_map(move |mut e| {
                    if n_types > 1 && e.ty != ty {
                        // re-type the event into the burst's type, keeping the value shapes valid
                        e = match ty {
                            0 => Ev { ty: 0, ctx: e.ctx, vals: vec![json!(1), json!("a")] },
                            1 => Ev { ty: 1, ctx: e.ctx, vals: vec![json!(0.5), json!("v0")] },
                            _ => Ev { ty: 2, ctx: e.ctx, vals: vec![json!(2), if e.ctx % 2 == 0 { json!(2) } else { Value::Null }] },
                        };
                    }
                    Op::Store(e)
                }), n..=n)
            });
            let seg = prop_oneof![
                6 => burst,
                2 => Just(vec![Op::Flush]),
                1 => Just(vec![Op::Barrier]),
                3 => Just(vec![Op::Compact(1)]),
                1 => Just(vec![Op::Restart]),
            ];
            (Just(cfg), Just(n_types), Just(n_ctx), prop::collection::vec(seg, 4..=tier.pick(16, 30)))
        })
        .prop_map(|(cfg, n_types, n_ctx, segs)| {
            let mut ops: Vec<Op> = segs.into_iter().flatten().collect();
            ops.push(Op::Flush);
            ops.push(Op::Compact(1));
            ops.push(Op::Compact(1));
            Case { cfg, types: three_types()[..n_types].to_vec(), n_ctx, ops }
        })
        .boxed()
}

/// Compare every observable answer with the model. All data is on disk (callers flush first).
pub fn observe(w: &mut World, types: &[TypeDef], n_ctx: usize, what: &str, count_ok: bool) -> Result<Option<(String, Value)>, Problem> {
    for (ti, t) in types.iter().enumerate() {
        let want: BTreeSet<i64> = w.model.events.iter().filter(|e| e.ty == ti).map(|e| e.k).collect();
        let q = format!("QUERY {} RETURN [k]", t.name);
        let r = w.db.cmd(&q)?;
        if r.is_error() {
            return Ok(Some(("error-response".into(), json!({"at": what, "cmd": q, "status": r.status, "message": r.message, "log": w.db.log}))));
        }
        let rows = ks_of(&r);
        let got: BTreeSet<i64> = rows.iter().cloned().collect();
        if got.len() != rows.len() {
            return Ok(Some(("duplicate-row".into(), json!({"at": what, "cmd": q, "rows": rows, "log": w.db.log}))));
        }
        if got != want {
            let missing: Vec<i64> = want.difference(&got).cloned().collect();
            let extra: Vec<i64> = got.difference(&want).cloned().collect();
            return Ok(Some((if !missing.is_empty() { "event-lost" } else { "event-resurrected" }.into(), json!({"at": what, "cmd": q, "missing": missing, "extra": extra, "log": w.db.log}))));
        }
        // values, not only membership: an equality on every optional integer field (a null cell leaves the row undecided)
        for (fi, f) in t.fields.iter().enumerate().filter(|(_, f)| f.opt && f.ty == FT::Int) {
            let must: BTreeSet<i64> = w.model.events.iter().filter(|e| e.ty == ti && e.vals[fi] == json!(2)).map(|e| e.k).collect();
            let may: BTreeSet<i64> = w.model.events.iter().filter(|e| e.ty == ti && e.vals[fi].is_null()).map(|e| e.k).collect();
            let qv = format!("QUERY {} RETURN [k] WHERE {} = 2", t.name, f.name);
            let rv = w.db.cmd(&qv)?;
            let gotv: BTreeSet<i64> = ks_of(&rv).into_iter().collect();
            let missing: Vec<i64> = must.difference(&gotv).cloned().collect();
            let extra: Vec<i64> = gotv.iter().filter(|k| !must.contains(k) && !may.contains(k)).cloned().collect();
            if !missing.is_empty() || !extra.is_empty() {
                return Ok(Some(("value-changed".into(), json!({"at": what, "cmd": qv, "missing": missing, "extra": extra, "log": w.db.log}))));
            }
        }
        if count_ok {
            let qc = format!("QUERY {} COUNT", t.name);
            let rc = w.db.cmd(&qc)?;
            let cnt = if rc.streamed { rc.rows.first().and_then(|r| r.first()).and_then(|v| v.as_i64()).unwrap_or(0) } else { 0 };
            if cnt != want.len() as i64 {
                return Ok(Some(("count-differs-from-selection".into(), json!({"at": what, "cmd": qc, "count": cnt, "selection": want.len(), "log": w.db.log}))));
            }
            let qb = format!("QUERY {} COUNT BY context_id", t.name);
            let rb = w.db.cmd(&qb)?;
            let mut got_by: BTreeMap<String, i64> = BTreeMap::new();
            if rb.streamed {
                let ci = rb.col("context_id").unwrap_or(0);
                let ni = rb.col("count").unwrap_or(1);
                for row in &rb.rows {
                    *got_by.entry(row.get(ci).and_then(|v| v.as_str()).unwrap_or("").to_string()).or_insert(0) += row.get(ni).and_then(|v| v.as_i64()).unwrap_or(0);
                }
            }
            let mut want_by: BTreeMap<String, i64> = BTreeMap::new();
            for e in w.model.events.iter().filter(|e| e.ty == ti) {
                *want_by.entry(e.ctx.clone()).or_insert(0) += 1;
            }
            if got_by != want_by {
                return Ok(Some(("count-by-context-differs".into(), json!({"at": what, "cmd": qb, "got": got_by, "want": want_by, "log": w.db.log}))));
            }
        }
        for cx in 0..n_ctx {
            let name = ctx_name(cx);
            let want: BTreeSet<i64> = w.model.events.iter().filter(|e| e.ty == ti && e.ctx == name).map(|e| e.k).collect();
            let q = format!("REPLAY {} FOR {} RETURN [k]", t.name, name);
            let r = w.db.cmd(&q)?;
            let rows = ks_of(&r);
            let got: BTreeSet<i64> = rows.iter().cloned().collect();
            if got.len() != rows.len() || got != want {
                return Ok(Some(("replay-membership".into(), json!({"at": what, "cmd": q, "got": rows, "want": want, "log": w.db.log}))));
            }
        }
    }
    Ok(None)
}

fn run_case(c: &Case, rep: &mut CaseReport) -> Verdict {
    let mut w = match World::start("c05", &c.cfg, &c.types, false) {
        Ok(w) => w,
        Err(e) => {
            rep.inconclusive = Some(format!("start: {:?}", e));
            return Verdict::Discard("start failed".into());
        }
    };
    let excl_reuse = crate::props::c02::KNOWN_ID_REUSE.load(std::sync::atomic::Ordering::Relaxed);
    let count_ok = !EXCL_COUNT.load(std::sync::atomic::Ordering::Relaxed) || c.types.len() == 1;
    let mut rounds_with_plan = 0;
    let mut partial_drain = false;
    for (oi, op) in c.ops.iter().enumerate() {
        let is_compact = matches!(op, Op::Compact(_));
        if is_compact {
            // everything on disk, quiescent, then one round; answers must not change
            if let Err(e) = w.apply(&Op::Flush) {
                return problem_verdict(e, &mut w, rep);
            }
            match observe(&mut w, &c.types, c.n_ctx, &format!("before-round@{}", oi), count_ok) {
                Ok(Some((s, d))) => return Verdict::fail(format!("pre:{}", s), d),
                Ok(None) => {}
                Err(e) => return problem_verdict(e, &mut w, rep),
            }
            // which segments hold which types before the round
            let before: Vec<Vec<String>> = (0..c.cfg.shard_count).map(|s| w.db.live(s).unwrap_or_default()).collect();
            let planned0 = w.compactions_planned;
            if let Err(e) = w.apply(op) {
                return problem_verdict(e, &mut w, rep);
            }
            if w.id_reused && excl_reuse {
                rep.excluded_known += 1;
                return Verdict::Discard("known: retired segment id re-created in the same process lifetime".into());
            }
            rep.sub_evals += 1;
            if w.compactions_planned > planned0 {
                rounds_with_plan += 1;
                rep.label("round:planned");
            }
            match observe(&mut w, &c.types, c.n_ctx, &format!("after-round@{}", oi), count_ok) {
                Ok(Some((s, d))) => return Verdict::fail(s, d),
                Ok(None) => {}
                Err(e) => return problem_verdict(e, &mut w, rep),
            }
            // retired inputs stop being listed and disappear as directories
            for s in 0..c.cfg.shard_count {
                let after: BTreeSet<String> = w.db.live(s).unwrap_or_default().into_iter().collect();
                let sdir = w.case.path.join("cols").join(format!("shard-{}", s));
                for l in &before[s] {
                    let still_dir = sdir.join(l).is_dir();
                    if !after.contains(l) && still_dir {
                        return Verdict::fail("retired-directory-remains", json!({"shard": s, "segment": l, "log": w.db.log}));
                    }
                    if after.contains(l) && w.compactions_planned > planned0 {
                        partial_drain = true;
                    }
                }
                for l in &after {
                    if !sdir.join(l).is_dir() {
                        return Verdict::fail("live-segment-without-directory", json!({"shard": s, "segment": l, "log": w.db.log}));
                    }
                }
            }
        } else if let Err(e) = w.apply(op) {
            return problem_verdict(e, &mut w, rep);
        }
    }
    if !w.compaction_errors.is_empty() {
        rep.label("compaction-failed");
        // which failure: the message with the generated uids masked
        for e in &w.compaction_errors {
            let masked: String = e.split_whitespace().map(|t| if t.len() >= 16 && t.chars().filter(|c| c.is_ascii_alphanumeric()).count() >= 16 && t.chars().any(|c| c.is_ascii_digit()) && t.chars().any(|c| c.is_ascii_uppercase()) { "<uid>" } else { t }).collect::<Vec<_>>().join(" ");
            rep.label(format!("compaction-failed:{}", masked.chars().take(420).collect::<String>()));
        }
    }
    if partial_drain {
        rep.label("round:partial-drain");
    }
    if rounds_with_plan > 0 && c.types.len() >= 2 {
        rep.nontrivial = true;
    }
    rep.sample = Some(json!({"config": {"shards": c.cfg.shard_count, "capacity": c.cfg.capacity(), "segments_per_merge": c.cfg.segments_per_merge}, "types": c.types.len(), "events": w.model.events.len(), "rounds_with_plan": rounds_with_plan,
        "ops": c.ops.iter().map(|o| match o { Op::Store(e) => format!("S{}", e.ty), Op::Flush => "F".into(), Op::Compact(_) => "C".into(), Op::Restart => "R".into(), _ => "b".into() }).collect::<Vec<_>>().join("")}));
    if !w.db.panics.is_empty() {
        return Verdict::fail("panic-in-worker", json!({"panics": w.db.panics, "log": w.db.log}));
    }
    Verdict::Pass
}

/// Step boundaries a compaction round crosses (output write, hand-over, index save, reclaim).
pub const ROUND_STEPS: &[&str] = &[
    "zw.zones",
    "zw.cols",
    "zw.temporal",
    "zw.filters",
    "zw.idx",
    "compact.uid_written",
    "handover.before_save",
    "segidx.tmp_written",
    "segidx.renamed",
    "handover.saved",
    "handover.live_updated",
    "compact.before_reclaim",
    "reclaim.renamed",
    "reclaim.deleted",
];

/// A history that ends with everything flushed, then a compaction round that dies at a named step.
#[derive(Clone, Debug, Serialize, Deserialize)]
pub struct CrashCase {
    #[serde(flatten)]
    pub base: Case,
    /// step name (one of ROUND_STEPS) and which crossing of it kills the process
    pub crash_step: String,
    pub crash_nth: u8,
}

fn crash_case_strategy(tier: Tier) -> BoxedStrategy<CrashCase> {
    // the five zone-writer steps lie inside the output write of one uid (the only window in which an output directory is
    // incomplete): three times the weight of the others; first crossings are the likeliest to exist
    let weighted: Vec<usize> = (0..ROUND_STEPS.len()).flat_map(|i| std::iter::repeat(i).take(if ROUND_STEPS[i].starts_with("zw.") { 3 } else { 1 })).collect();
    (case_strategy(tier), prop::sample::select(weighted), prop_oneof![3 => Just(1u8), 2 => Just(2u8), 1 => Just(3u8)])
        .prop_map(|(mut base, si, nth)| {
            // the history proper: no restart, no round before the interrupted one is needed, but they are kept when generated;
            // the two closing rounds of the main exploration are replaced by the interrupted round
            base.ops.truncate(base.ops.len().saturating_sub(2));
            // the interrupted round is the first round of the first lifetime: histories that store after a compaction and a
            // restart belong to the classes of open C01 / C11 findings (L0 ids restart at 0, segment ids are reused)
            base.ops.retain(|o| !matches!(o, Op::Compact(_) | Op::Restart));
            CrashCase { base, crash_step: ROUND_STEPS[si].to_string(), crash_nth: nth }
        })
        .boxed()
}

/// The part of the answers that does not depend on the open findings about partial directories becoming live
/// (duplicates): nothing that was readable before the round may be LOST. Error responses are counted, not judged.
fn observe_no_loss(w: &mut World, types: &[TypeDef], n_ctx: usize, what: &str, rep: &mut CaseReport) -> Result<Option<(String, Value)>, Problem> {
    for (ti, t) in types.iter().enumerate() {
        let want: BTreeSet<i64> = w.model.events.iter().filter(|e| e.ty == ti).map(|e| e.k).collect();
        let q = format!("QUERY {} RETURN [k]", t.name);
        let r = w.db.cmd(&q)?;
        if r.is_error() {
            rep.label("interrupted:error-response-not-judged");
            continue;
        }
        let got: BTreeSet<i64> = ks_of(&r).into_iter().collect();
        let missing: Vec<i64> = want.difference(&got).cloned().collect();
        if !missing.is_empty() {
            return Ok(Some(("event-lost-after-interrupted-round".into(), json!({"at": what, "cmd": q, "missing": missing, "log": w.db.log}))));
        }
        let qc = format!("QUERY {} COUNT", t.name);
        let rc = w.db.cmd(&qc)?;
        if !rc.is_error() && rc.streamed {
            let cnt = rc.rows.first().and_then(|r| r.first()).and_then(|v| v.as_i64()).unwrap_or(0);
            if cnt < want.len() as i64 {
                return Ok(Some(("count-below-selection-after-interrupted-round".into(), json!({"at": what, "cmd": qc, "count": cnt, "selection": want.len(), "log": w.db.log}))));
            }
        }
        for cx in 0..n_ctx {
            let name = ctx_name(cx);
            let want: BTreeSet<i64> = w.model.events.iter().filter(|e| e.ty == ti && e.ctx == name).map(|e| e.k).collect();
            let q = format!("REPLAY {} FOR {} RETURN [k]", t.name, name);
            let r = w.db.cmd(&q)?;
            if r.is_error() {
                rep.label("interrupted:error-response-not-judged");
                continue;
            }
            let got: BTreeSet<i64> = ks_of(&r).into_iter().collect();
            let missing: Vec<i64> = want.difference(&got).cloned().collect();
            if !missing.is_empty() {
                return Ok(Some(("replay-lost-after-interrupted-round".into(), json!({"at": what, "cmd": q, "missing": missing, "log": w.db.log}))));
            }
        }
    }
    Ok(None)
}

/// What is on disk and what the engine lists as live, for the detail of a failure.
fn layout_dump(w: &mut World, shards: usize) -> Value {
    let mut out = vec![];
    for s in 0..shards {
        let live = w.db.live(s).unwrap_or_default();
        let sdir = w.case.path.join("cols").join(format!("shard-{}", s));
        let mut dirs = vec![];
        if let Ok(rd) = std::fs::read_dir(&sdir) {
            for e in rd.flatten() {
                let p = e.path();
                let name = e.file_name().to_string_lossy().to_string();
                if p.is_dir() {
                    let n = std::fs::read_dir(&p).map(|d| d.count()).unwrap_or(0);
                    let mut sub = vec![];
                    if name == ".reclaim" {
                        if let Ok(r2) = std::fs::read_dir(&p) {
                            for b in r2.flatten() {
                                let inner: Vec<String> = std::fs::read_dir(b.path()).map(|d| d.flatten().map(|x| x.file_name().to_string_lossy().to_string()).collect()).unwrap_or_default();
                                sub.push(json!({"batch": b.file_name().to_string_lossy(), "entries": inner}));
                            }
                        }
                    }
                    dirs.push(json!({"dir": name, "entries": n, "reclaim": sub}));
                } else {
                    dirs.push(json!({"file": name, "len": e.metadata().map(|m| m.len()).unwrap_or(0)}));
                }
            }
        }
        out.push(json!({"shard": s, "live": live, "on_disk": dirs}));
    }
    json!(out)
}

fn run_crash_case(c: &CrashCase, rep: &mut CaseReport) -> Verdict {
    let b = &c.base;
    let mut w = match World::start("c05x", &b.cfg, &b.types, false) {
        Ok(w) => w,
        Err(e) => {
            rep.inconclusive = Some(format!("start: {:?}", e));
            return Verdict::Discard("start failed".into());
        }
    };
    for op in &b.ops {
        if let Err(e) = w.apply(op) {
            return problem_verdict(e, &mut w, rep);
        }
    }
    if let Err(e) = w.apply(&Op::Flush).and_then(|_| w.apply(&Op::Barrier)) {
        return problem_verdict(e, &mut w, rep);
    }
    // the full comparison before the round is the main exploration's business; here only: is everything readable now?
    match observe_no_loss(&mut w, &b.types, b.n_ctx, "before-interrupted-round", rep) {
        Ok(Some(_)) => return Verdict::Discard("history already loses events before the round (judged by the main exploration)".into()),
        Ok(None) => {}
        Err(e) => return problem_verdict(e, &mut w, rep),
    }
    if let Err(e) = w.db.req(json!({"op":"arm_crash","step":c.crash_step,"nth":c.crash_nth})) {
        return problem_verdict(Problem::Db(e), &mut w, rep);
    }
    let planned0 = w.compactions_planned;
    let died = match w.apply(&Op::Compact(1)) {
        Ok(()) => false,
        Err(Problem::Db(DbError::Died(_))) => true,
        Err(e) => return problem_verdict(e, &mut w, rep),
    };
    rep.sub_evals += 1;
    if died {
        rep.label(format!("interrupted-at:{}", c.crash_step));
        if let Err(e) = w.reopen() {
            return problem_verdict(e, &mut w, rep);
        }
    } else {
        rep.label(if w.compactions_planned > planned0 { "round-completed:step-not-crossed-often-enough" } else { "round-without-plan" });
        // the armed step may still fire later; a clean restart disarms it
        match w.apply(&Op::Restart) {
            Ok(()) => {}
            Err(Problem::Db(DbError::Died(_))) => {
                rep.label("interrupted-at-shutdown");
                if let Err(e) = w.reopen() {
                    return problem_verdict(e, &mut w, rep);
                }
            }
            Err(e) => return problem_verdict(e, &mut w, rep),
        }
    }
    // a crash recovery may replay WAL entries of already flushed events into the memtable (open C01 findings) and flush them
    // again in the background: every observation and every later round waits for those flushes first, so that no read and no
    // round runs beside a flush in flight (the class of another open finding)
    if let Err(e) = w.db.barrier() {
        return problem_verdict(Problem::Db(e), &mut w, rep);
    }
    // (1) right after the restart the previous answers still hold (here: nothing is lost)
    match observe_no_loss(&mut w, &b.types, b.n_ctx, "after-restart", rep) {
        Ok(Some((s, mut d))) => {
                d["layout"] = layout_dump(&mut w, b.cfg.shard_count);
                return Verdict::fail(s, d);
            }
        Ok(None) => {}
        Err(e) => return problem_verdict(e, &mut w, rep),
    }
    // (2) the next rounds find the leftovers of the interrupted one; they must not lose anything either
    let mut later_rounds = 0;
    // ONE later round per shard: cascades of rounds after an interrupted one re-create retired segment ids within one process
    // (open finding C11-segment-id-reuse) and then lose events now and then on the unchanged tree (DESIGN 7.3)
    // (experiment switches for DESIGN 7.4: VCHECK_C05_LATER_ROUNDS=<n> runs cascades, VCHECK_C05_JUDGE_EARLY judges the read right after a round)
    let later_max: usize = std::env::var("VCHECK_C05_LATER_ROUNDS").ok().and_then(|v| v.parse().ok()).unwrap_or(1);
    let judge_early = std::env::var("VCHECK_C05_JUDGE_EARLY").is_ok();
    for _ in 0..later_max {
        let mut any = false;
        for s in 0..b.cfg.shard_count {
            if let Err(e) = w.db.barrier() {
                return problem_verdict(Problem::Db(e), &mut w, rep);
            }
            match w.db.compact(s) {
                Ok(v) => {
                    if v["error"].as_str().is_some() || v.get("panic").is_some() {
                        rep.label("later-round-failed");
                        w.db.panics.clear();
                    } else if v["planned"].as_bool() == Some(true) {
                        any = true;
                        later_rounds += 1;
                    }
                }
                Err(e) => return problem_verdict(Problem::Db(e), &mut w, rep),
            }
        }
        rep.sub_evals += 1;
        if let Err(e) = w.db.barrier() {
            return problem_verdict(Problem::Db(e), &mut w, rep);
        }
        match observe_no_loss(&mut w, &b.types, b.n_ctx, "after-later-round", rep) {
            // a read right after a round that followed an interrupted one misses events now and then on the unchanged tree
            // (timing dependent, 1 replay in 6; see DESIGN 7.3): counted here, judged after the clean restart below, where
            // the answer depends on the directories only
            Ok(Some((s, mut d))) if judge_early => {
                d["layout"] = layout_dump(&mut w, b.cfg.shard_count);
                return Verdict::fail(s, d);
            }
            Ok(Some(_)) => rep.label("later-round:loss-seen-before-the-clean-restart(not judged)"),
            Ok(None) => {}
            Err(e) => return problem_verdict(e, &mut w, rep),
        }
        if !any {
            break;
        }
    }
    if later_rounds > 0 {
        rep.label("later-round:planned");
    }
    // (3) and a clean restart after those rounds
    if let Err(e) = w.apply(&Op::Restart) {
        return problem_verdict(e, &mut w, rep);
    }
    match observe_no_loss(&mut w, &b.types, b.n_ctx, "after-later-rounds-and-clean-restart", rep) {
        Ok(Some((s, mut d))) => {
                d["layout"] = layout_dump(&mut w, b.cfg.shard_count);
                return Verdict::fail(s, d);
            }
        Ok(None) => {}
        Err(e) => return problem_verdict(e, &mut w, rep),
    }
    if died && later_rounds > 0 {
        rep.nontrivial = true;
    }
    rep.sample = Some(json!({"config": {"shards": b.cfg.shard_count, "capacity": b.cfg.capacity(), "segments_per_merge": b.cfg.segments_per_merge}, "types": b.types.len(), "events": w.model.events.len(),
        "crash": format!("{}#{}", c.crash_step, c.crash_nth), "died": died, "later_rounds_with_plan": later_rounds}));
    Verdict::Pass
}

pub static EXCL_COUNT: std::sync::atomic::AtomicBool = std::sync::atomic::AtomicBool::new(false);

pub fn replay(_check: &str, case: &Value) -> Verdict {
    if case.get("crash_step").is_some() {
        return match serde_json::from_value::<CrashCase>(case.clone()) {
            Ok(c) => run_crash_case(&c, &mut CaseReport::default()),
            Err(e) => Verdict::Discard(format!("bad case: {}", e)),
        };
    }
    match serde_json::from_value::<Case>(case.clone()) {
        Ok(c) => run_case(&c, &mut CaseReport::default()),
        Err(e) => Verdict::Discard(format!("bad case: {}", e)),
    }
}

pub fn run(ctx: &Ctx) -> i32 {
    let stats = Mutex::new(Stats::default());
    let mut report = Report::new(
        "C05",
        "exploration",
        "generated (config incl. fan-in 2-4, 2-3 event types stored in bursts so that types live in different subsets of segments, FLUSH / barrier / restart, compaction rounds); around every round all data is flushed and QUERY RETURN [k], an equality on the optional field (values, not only membership), COUNT, COUNT BY context_id and REPLAY <type> FOR <ctx> are compared with the model per type and context (no duplicates, nothing lost, nothing resurrected); retired inputs leave the live list and their directories disappear. The crash clause (death part-way through a round) is explored by C01/C11's crash-point histories. Non-trivial: a round with a plan over >= 2 event types.",
    );
    report.assumptions = vec!["rounds are single compaction passes per shard through the production CompactionWorker (hook compact_shard)".into()];
    replay_known(ctx, &stats, &mut report, &replay);
    replay_regressions(ctx, &stats, &mut report, &replay);
    crate::props::c02::KNOWN_ID_REUSE.store(ctx.open_any("layout.stale_cache_after_id_reuse"), std::sync::atomic::Ordering::Relaxed);
    // every observation of this check is made with all data flushed: segments are per event type, so the
    // open aggregate finding (event type not applied to in-memory rows) cannot pollute COUNT here
    EXCL_COUNT.store(ctx.open("compaction.partial_drain"), std::sync::atomic::Ordering::Relaxed);
    let cases = ctx.tier.pick(96, 1500);
    let tier = ctx.tier;
    if let Some(f) = explore(ctx, "rounds", || case_strategy(tier), Explore { cases, max_shrink_iters: ctx.tier.pick(80, 400), lanes: ctx.lanes }, &stats, run_case) {
        report.violations.push(f);
    }
    // second exploration: the round dies at a named step; restart, later rounds, clean restart: nothing is lost
    if report.violations.is_empty() {
        let cases2 = ctx.tier.pick(112, 1500);
        if let Some(f) = explore(ctx, "interrupted-rounds", || crash_case_strategy(tier), Explore { cases: cases2, max_shrink_iters: ctx.tier.pick(80, 400), lanes: ctx.lanes }, &stats, run_crash_case) {
            report.violations.push(f);
        }
    }
    finish(ctx, stats.into_inner().unwrap(), report)
}
