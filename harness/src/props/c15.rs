//! C15 - sequence queries return exactly the linked, correctly ordered pairs.

use crate::db::DbConfig;
use crate::fw::*;
use crate::hist::*;
use crate::props::c02::problem_verdict;
use proptest::prelude::*;
use serde::{Deserialize, Serialize};
use serde_json::{Value, json};
use std::collections::BTreeSet;
use std::sync::Mutex;

#[derive(Clone, Debug, Serialize, Deserialize)]
pub struct SQ {
    /// false: pv FOLLOWED BY oc ; true: oc PRECEDED BY pv (head is oc)
    pub preceded: bool,
    /// condition on pv.p (Some(value)) and on oc.st
    pub a_cond: Option<String>,
    pub b_cond: Option<String>,
    pub limit: Option<u32>,
    /// order the events by the payload time field `at` (USING TIME at) instead of the core timestamp
    #[serde(default)]
    pub using_at: bool,
    /// how the conditions are spelled: 0 = equalities joined by AND; 1 = each as NOT <field> = "<the other value>";
    /// 2 = each as (<field> = "<value>" OR <field> = "<a value that never occurs>"). Same meaning in all three.
    #[serde(default)]
    pub form: u8,
}

#[derive(Clone, Debug, Serialize, Deserialize)]
pub struct Case {
    pub cfg: DbConfig,
    pub n_ctx: usize,
    pub ops: Vec<Op>,
    pub tail: Vec<Op>,
    pub queries: Vec<SQ>,
}

fn seq_types() -> Vec<TypeDef> {
    let f = |n: &str, ty: FT| FieldDef { name: n.into(), alias: aliases(&ty)[0].to_string(), ty, opt: false };
    vec![
        TypeDef { name: "pv".into(), fields: vec![f("u", FT::Int), f("p", FT::Str), f("at", FT::Datetime)] },
        TypeDef { name: "oc".into(), fields: vec![f("u", FT::Int), f("st", FT::Str), f("at", FT::Datetime)] },
    ]
}

impl SQ {
    fn print(&self) -> String {
        let mut s = if self.preceded { "QUERY oc PRECEDED BY pv LINKED BY u".to_string() } else { "QUERY pv FOLLOWED BY oc LINKED BY u".to_string() };
        if self.using_at {
            s.push_str(" USING TIME at");
        }
        let mut conds = vec![];
        let spell = |field: &str, v: &str, other: &str| match self.form {
            1 => format!("NOT {} = \"{}\"", field, other),
            2 => format!("({} = \"{}\" OR {} = \"zz\")", field, v, field),
            _ => format!("{} = \"{}\"", field, v),
        };
        if let Some(p) = &self.a_cond {
            conds.push(spell("pv.p", p, if p == "/a" { "/b" } else { "/a" }));
        }
        if let Some(st) = &self.b_cond {
            conds.push(spell("oc.st", st, if st == "done" { "bad" } else { "done" }));
        }
        if !conds.is_empty() {
            s.push_str(&format!(" WHERE {}", conds.join(" AND ")));
        }
        if let Some(l) = self.limit {
            s.push_str(&format!(" LIMIT {}", l));
        }
        s
    }
}

#[derive(Clone, Copy)]
struct Excl {
    limit: bool,
    preceded: bool,
    conds: bool,
    equal_times: bool,
    no_compaction: bool,
    /// C01's open findings store events twice across a restart; LIMIT on sequences then counts differently
    no_restart: bool,
}

fn case_strategy(tier: Tier, ex: Excl) -> BoxedStrategy<Case> {
    (cfg_strategy(3), 2usize..=4)
        .prop_flat_map(move |(cfg, n_ctx)| {
            // `at`: a payload time on a small grid, unrelated to the order of arrival
            let ev = (0usize..2, 0..n_ctx, 0i64..4, prop::sample::select(vec!["/a", "/b"]), prop::sample::select(vec!["done", "bad"]), 0i64..8).prop_map(|(ty, ctx, u, p, st, at)| {
                let at = json!(1_700_000_000i64 + at * 1000);
                if ty == 0 { Ev { ty, ctx, vals: vec![json!(u), json!(p), at] } } else { Ev { ty, ctx, vals: vec![json!(u), json!(st), at] } }
            });
            let op = prop_oneof![
                30 => ev.prop_map(Op::Store),
                10 => (0u32..12).prop_map(Op::Clock),
                2 => Just(Op::Flush),
                2 => Just(Op::Barrier),
                1 => (1u8..=2).prop_map(move |n| if ex.no_compaction { Op::Barrier } else { Op::Compact(n) }),
            ];
            let ops = prop::collection::vec(op, 6..=tier.pick(40, 70));
            let tail = prop::collection::vec(prop_oneof![3 => Just(Op::Flush), 2 => (1u8..=2).prop_map(move |n| if ex.no_compaction { Op::Barrier } else { Op::Compact(n) }), 1 => Just(if ex.no_restart { Op::Barrier } else { Op::Restart })], 1..=2);
            let q = (
                any::<bool>(),
                opt_w(if ex.conds { 0.0 } else { 0.4 }, prop::sample::select(vec!["/a", "/b"])),
                opt_w(if ex.conds { 0.0 } else { 0.5 }, prop::sample::select(vec!["done", "bad"])),
                opt_w(if ex.limit { 0.0 } else { 0.3 }, 1u32..4),
                prop::bool::weighted(0.3),
                prop_oneof![2 => Just(0u8), 1 => Just(1u8), 1 => Just(2u8)],
            )
                .prop_map(move |(preceded, a, b, limit, using_at, form)| SQ { preceded, a_cond: a.map(|s| s.to_string()), b_cond: b.map(|s| s.to_string()), limit, using_at, form });
            (Just(cfg), Just(n_ctx), ops, tail, prop::collection::vec(q, 4..=tier.pick(10, 16)))
        })
        .prop_map(|(cfg, n_ctx, ops, tail, queries)| Case { cfg, n_ctx, ops, tail, queries })
        .boxed()
}

static EXCL: Mutex<Option<Excl>> = Mutex::new(None);

fn run_case(c: &Case, rep: &mut CaseReport) -> Verdict {
    let ex = EXCL.lock().unwrap().unwrap_or(Excl { limit: false, preceded: false, conds: false, equal_times: false, no_compaction: false, no_restart: false });
    let types = seq_types();
    let mut w = match World::start("c15", &c.cfg, &types, true) {
        Ok(w) => w,
        Err(e) => {
            rep.inconclusive = Some(format!("start: {:?}", e));
            return Verdict::Discard("start failed".into());
        }
    };
    // (replay files written before the payload time field existed: give those events a constant `at`)
    let ops: Vec<Op> = c
        .ops
        .iter()
        .cloned()
        .map(|op| match op {
            Op::Store(mut ev) => {
                if ev.vals.len() == 2 {
                    ev.vals.push(json!(1_700_000_000i64));
                }
                Op::Store(ev)
            }
            o => o,
        })
        .collect();
    for op in &ops {
        if let Err(e) = w.apply(op) {
            return problem_verdict(e, &mut w, rep);
        }
        if ex.equal_times {
            if let Op::Store(_) = op {
                // open finding on equal times: keep every event on its own second
                let off = w.clock.map(|c| c - w.base_secs).unwrap_or(0) as u32 + 1;
                if let Err(e) = w.apply(&Op::Clock(off)) {
                    return problem_verdict(e, &mut w, rep);
                }
            }
        }
    }
    let mut first: Vec<Option<BTreeSet<i64>>> = vec![None; c.queries.len()];
    for ci in 0..=c.tail.len() {
        if ci > 0 {
            if let Err(e) = w.apply(&c.tail[ci - 1]) {
                return problem_verdict(e, &mut w, rep);
            }
        }
        if let Err(e) = w.db.barrier() {
            return problem_verdict(Problem::Db(e), &mut w, rep);
        }
        if w.id_reused && crate::props::c02::KNOWN_ID_REUSE.load(std::sync::atomic::Ordering::Relaxed) {
            rep.excluded_known += 1;
            return Verdict::Discard("known: retired segment id re-created in the same process lifetime".into());
        }
        let layout = w.layout_labels();
        for l in &layout {
            rep.label(l.clone());
        }
        for (qi, q) in c.queries.iter().enumerate() {
            let text = q.print();
            let r = match w.db.cmd(&text) {
                Ok(r) => r,
                Err(e) => return problem_verdict(Problem::Db(e), &mut w, rep),
            };
            rep.sub_evals += 1;
            if q.using_at {
                rep.label("using-time-payload-field");
            }
            if !r.panics.is_empty() {
                return Verdict::fail("panic", json!({"cmd": text, "panics": r.panics, "log": w.db.log}));
            }
            // model
            let a_ok = |e: &MEv| e.ty == 0 && q.a_cond.as_ref().map(|p| e.vals[1].as_str() == Some(p.as_str())).unwrap_or(true);
            let b_ok = |e: &MEv| e.ty == 1 && q.b_cond.as_ref().map(|p| e.vals[1].as_str() == Some(p.as_str())).unwrap_or(true);
            // a pv event and an oc event form a sequence when: same u, and oc at the same time or later
            // (FOLLOWED BY); for "oc PRECEDED BY pv": pv strictly earlier than oc.
            let time_of = |e: &MEv| -> i64 { if q.using_at { e.vals[2].as_i64().unwrap_or(0) } else { e.secs.unwrap() as i64 } };
            let pair_ok = |pv: &MEv, oc: &MEv| pv.vals[0] == oc.vals[0] && if q.preceded { time_of(pv) < time_of(oc) } else { time_of(oc) >= time_of(pv) };
            // the "matched" side is the head of the query: pv for FOLLOWED BY, oc for PRECEDED BY
            let heads: Vec<&MEv> = w.model.events.iter().filter(|e| if q.preceded { b_ok(e) } else { a_ok(e) }).collect();
            let partners: Vec<&MEv> = w.model.events.iter().filter(|e| if q.preceded { a_ok(e) } else { b_ok(e) }).collect();
            let expected_heads: BTreeSet<i64> = heads
                .iter()
                .filter(|h| partners.iter().any(|p| if q.preceded { pair_ok(p, h) } else { pair_ok(h, p) }))
                .map(|h| h.k)
                .collect();
            if r.is_error() {
                if expected_heads.is_empty() {
                    continue;
                }
                return Verdict::fail("error-response", json!({"cmd": text, "status": r.status, "message": r.message, "log": w.db.log}));
            }
            // reconstruct pairs: consecutive rows
            let ks = ks_of(&r);
            if r.streamed && ks.len() != r.rows.len() {
                return Verdict::fail("row-without-tag", json!({"cmd": text, "rows": r.rows, "log": w.db.log}));
            }
            if ks.len() % 2 != 0 {
                return Verdict::fail("odd-number-of-rows", json!({"cmd": text, "ks": ks, "log": w.db.log}));
            }
            let ev_of = |k: i64| w.model.events.iter().find(|e| e.k == k);
            let mut got_heads: Vec<i64> = vec![];
            for pair in ks.chunks(2) {
                let (Some(x), Some(y)) = (ev_of(pair[0]), ev_of(pair[1])) else {
                    return Verdict::fail("unknown-event", json!({"cmd": text, "pair": pair, "log": w.db.log}));
                };
                let (pv, oc) = if x.ty == 0 && y.ty == 1 {
                    (x, y)
                } else if x.ty == 1 && y.ty == 0 {
                    (y, x)
                } else {
                    return Verdict::fail("pair-of-same-type", json!({"cmd": text, "pair": pair, "log": w.db.log}));
                };
                let why = if pv.vals[0] != oc.vals[0] {
                    Some("link-values-differ")
                } else if !pair_ok(pv, oc) {
                    Some("wrong-time-order")
                } else if !a_ok(pv) || !b_ok(oc) {
                    Some("side-fails-its-where")
                } else {
                    None
                };
                if let Some(wy) = why {
                    return Verdict::fail(format!("invalid-pair:{}", wy), json!({"cmd": text, "pv": {"k": pv.k, "u": pv.vals[0], "p": pv.vals[1], "t": pv.secs.map(|s| s - w.base_secs)}, "oc": {"k": oc.k, "u": oc.vals[0], "st": oc.vals[1], "t": oc.secs.map(|s| s - w.base_secs)}, "layout": layout, "log": w.db.log}));
                }
                got_heads.push(if q.preceded { oc.k } else { pv.k });
            }
            let got_set: BTreeSet<i64> = got_heads.iter().cloned().collect();
            if got_set.len() != got_heads.len() {
                return Verdict::fail("head-matched-twice", json!({"cmd": text, "heads": got_heads, "log": w.db.log}));
            }
            let dump = || json!(w.model.events.iter().map(|e| json!({"k": e.k - K_BASE, "ty": types[e.ty].name, "u": e.vals[0], "v": e.vals[1], "t": e.secs.map(|s| s - w.base_secs), "ctx": e.ctx})).collect::<Vec<_>>());
            if q.preceded && ex.preceded {
                // open finding: the PRECEDED BY sweep misses heads. Only the returned pairs are judged (each valid, no
                // head twice, above); completeness, LIMIT and placement independence are excluded for this form.
                rep.excluded_known += 1;
                rep.label("preceded-by:validity-only");
                continue;
            }
            match q.limit {
                None => {
                    if got_set != expected_heads {
                        let missing: Vec<i64> = expected_heads.difference(&got_set).map(|k| k - K_BASE).collect();
                        let extra: Vec<i64> = got_set.difference(&expected_heads).map(|k| k - K_BASE).collect();
                        return Verdict::fail(if !missing.is_empty() { "head-with-partner-not-matched" } else { "head-without-partner-matched" }, json!({"cmd": text, "missing": missing, "extra": extra, "layout": layout, "events": dump(), "log": w.db.log}));
                    }
                    match &first[qi] {
                        None => first[qi] = Some(got_set.clone()),
                        Some(f0) => {
                            if *f0 != got_set {
                                return Verdict::fail("placement-dependent", json!({"cmd": text, "first": f0, "now": got_set, "layout": layout, "log": w.db.log}));
                            }
                        }
                    }
                }
                Some(n) => {
                    if !got_set.is_subset(&expected_heads) || got_set.len() != (n as usize).min(expected_heads.len()) {
                        return Verdict::fail("limit", json!({"cmd": text, "got": got_set.len(), "expected": (n as usize).min(expected_heads.len()), "events": dump(), "log": w.db.log}));
                    }
                }
            }
            if expected_heads.len() >= 2 && expected_heads.len() < heads.len() {
                rep.nontrivial = true;
            }
        }
    }
    rep.sample = Some(json!({"config": {"shards": c.cfg.shard_count, "capacity": c.cfg.capacity()}, "events": w.model.events.len(), "queries": c.queries.iter().take(3).map(|q| q.print()).collect::<Vec<_>>(), "tail": c.tail}));
    if !w.db.panics.is_empty() {
        return Verdict::fail("panic-in-worker", json!({"panics": w.db.panics, "log": w.db.log}));
    }
    Verdict::Pass
}

pub fn replay(_check: &str, case: &Value) -> Verdict {
    match serde_json::from_value::<Case>(case.clone()) {
        Ok(c) => {
            let saved = EXCL.lock().unwrap().take();
            let v = run_case(&c, &mut CaseReport::default());
            *EXCL.lock().unwrap() = saved;
            v
        }
        Err(e) => Verdict::Discard(format!("bad case: {}", e)),
    }
}

pub fn run(ctx: &Ctx) -> i32 {
    let stats = Mutex::new(Stats::default());
    let mut report = Report::new(
        "C15",
        "exploration",
        "generated (two event types pv / oc sharing the link field u with values shared by many, one side or none; equal and distinct core timestamps under the hook clock; FLUSH / compaction / restart placements over 1-3 shards; queries pv FOLLOWED BY oc / oc PRECEDED BY pv LINKED BY u with event-prefixed WHERE conditions and LIMIT). Validity oracle: every returned pair links equal u, respects >= (FOLLOWED BY) / strictly earlier (PRECEDED BY), both sides satisfy their conditions; the set of matched head events equals the set of head events that have a qualifying partner in the model (LIMIT n: a subset of size min(n, total)); no head twice; the answer is the same at every storage layout. Non-trivial: >= 2 matched heads and >= 1 unmatched head.",
    );
    report.assumptions = vec!["time is the core timestamp set through the clock hook; pairs are read as consecutive rows of the response".into()];
    replay_known(ctx, &stats, &mut report, &replay);
    replay_regressions(ctx, &stats, &mut report, &replay);
    let ex = Excl { limit: ctx.open("seq.limit"), preceded: ctx.open("seq.preceded_by"), conds: ctx.open("seq.where"), equal_times: ctx.open("seq.equal_times"), no_compaction: ctx.open_any("compaction.partial_drain"), no_restart: ctx.open_any("crash.after_manual_flush_or_clean_restart") || ctx.open_any("crash.store_after_compaction_and_restart") };
    *EXCL.lock().unwrap() = Some(ex);
    crate::props::c02::KNOWN_ID_REUSE.store(ctx.open_any("layout.stale_cache_after_id_reuse"), std::sync::atomic::Ordering::Relaxed);
    let cases = ctx.tier.pick(240, 1500);
    let tier = ctx.tier;
    if let Some(f) = explore(ctx, "sequences", || case_strategy(tier, ex), Explore { cases, max_shrink_iters: ctx.tier.pick(100, 400), lanes: ctx.lanes }, &stats, run_case) {
        report.violations.push(f);
    }
    finish(ctx, stats.into_inner().unwrap(), report)
}
