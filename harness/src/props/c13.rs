//! C13 - no data command runs without authentication and the required permission.
//! The worker runs the real TCP listener; the driver is a plain socket client.

use crate::db::{CaseDir, Db, DbConfig};
use crate::fw::*;
use crate::hist::K_BASE;
use hmac::{Hmac, Mac};
use proptest::prelude::*;
use serde::{Deserialize, Serialize};
use serde_json::{Value, json};
use sha2::Sha256;
use std::collections::{BTreeMap, BTreeSet};
use std::io::{Read, Write};
use std::sync::Mutex;
use std::sync::atomic::{AtomicU16, Ordering};

const ADMIN: &str = "root1";
const ADMIN_KEY: &str = "root-secret-key";
const TYPES: [&str; 2] = ["ta", "tb"];

#[derive(Clone, Debug, Serialize, Deserialize, PartialEq)]
pub enum Role {
    None,
    Admin,
    ReadOnly,
    Viewer,
    Editor,
    WriteOnly,
}

#[derive(Clone, Debug, Serialize, Deserialize)]
pub struct UserSpec {
    pub id: String,
    pub role: Role,
    /// per event type: (read, write) grants (only for users without a role)
    pub grants: Vec<(bool, bool)>,
    /// further GRANT statements issued after those: (read, write, event types in the order they are listed)
    #[serde(default)]
    pub stmts: Vec<(bool, bool, Vec<usize>)>,
}

#[derive(Clone, Debug, Serialize, Deserialize, PartialEq)]
pub enum Cred {
    /// user:signature:command
    Inline,
    /// AUTH on the connection, then signature:command
    Connection,
    /// session token obtained by AUTH, sent as "... TOKEN t" on a new connection
    Token,
    WrongKey,
    TruncatedSignature,
    SignatureOfOtherCommand,
    NoCredentials,
    GarbageToken,
    /// a session token obtained right after the user was created, used later (after revocations)
    EarlierToken,
    /// a connection AUTH torn in two: its signature check passed while the user was active (every user authenticates once
    /// right after creation), its second step - minting the session token - runs now, after whatever happened in between
    TornAuthToken,
}

#[derive(Clone, Debug, Serialize, Deserialize, PartialEq)]
pub enum Kind {
    Store,
    Query,
    ReplayTyped,
    ReplayUntyped,
    Sequence,
    Count,
    Compare,
    Batch,
    Remember,
    Show,
    Flush,
    Define,
    CreateUser,
    Grant,
    RevokeKeyOfOther,
    ListUsers,
    ShowPermissions,
}

#[derive(Clone, Debug, Serialize, Deserialize)]
pub enum Step {
    /// user index (0 = admin), command kind, event type index, credential form
    Do {
        user: usize,
        kind: Kind,
        ty: usize,
        cred: Cred,
        tricky_payload: bool,
        /// front end: 0 TCP, 1 Unix-socket connection type, 2 HTTP with X-Auth headers, 3 HTTP with the inline form in the body
        /// (the signature-only front ends are used for the signature-based credential forms, everything else goes over TCP)
        #[serde(default)]
        via: u8,
    },
    /// admin revokes the user's key; later requests of that user must fail
    RevokeKey { user: usize },
    /// admin revokes a grant
    RevokeGrant { user: usize, ty: usize, read: bool },
    /// admin issues one GRANT / REVOKE statement over a list of event types
    AdminGrant { user: usize, read: bool, write: bool, types: Vec<usize>, revoke: bool },
}

#[derive(Clone, Debug, Serialize, Deserialize)]
pub struct Case {
    pub users: Vec<UserSpec>,
    pub steps: Vec<Step>,
    /// (user, kind, type): a token obtained at the start is used after the session expiry (2 s) has passed
    #[serde(default)]
    pub expired: Option<(usize, Kind, usize)>,
}

fn sign(key: &str, msg: &str) -> String {
    let mut mac = Hmac::<Sha256>::new_from_slice(key.as_bytes()).expect("hmac");
    mac.update(msg.as_bytes());
    hex::encode(mac.finalize().into_bytes())
}

static NEXT_PORT: AtomicU16 = AtomicU16::new(0);

fn free_port() -> u16 {
    // ports are handed out from a per-process window; a bind test skips ports in use
    loop {
        let base = 20000 + (std::process::id() as u16 % 2000) * 10;
        let n = NEXT_PORT.fetch_add(2, Ordering::SeqCst);
        let port = base.wrapping_add(n % 20000).max(10000);
        if std::net::TcpListener::bind(("127.0.0.1", port)).is_ok() && std::net::TcpListener::bind(("127.0.0.1", port + 1)).is_ok() {
            return port;
        }
    }
}

/// one request = one connection: send the lines, half-close, read to EOF
fn request(port: u16, lines: &[String]) -> Result<String, String> {
    let mut s = std::net::TcpStream::connect(("127.0.0.1", port)).map_err(|e| e.to_string())?;
    s.set_read_timeout(Some(std::time::Duration::from_secs(20))).ok();
    for l in lines {
        s.write_all(l.as_bytes()).map_err(|e| e.to_string())?;
        s.write_all(b"\n").map_err(|e| e.to_string())?;
    }
    s.shutdown(std::net::Shutdown::Write).ok();
    let mut out = String::new();
    let mut buf = Vec::new();
    s.read_to_end(&mut buf).map_err(|e| e.to_string())?;
    out.push_str(&String::from_utf8_lossy(&buf));
    Ok(out)
}

/// one HTTP/1.1 POST /command (Connection: close); returns the body, prefixed with the status the JSON body announces so that
/// it reads like the line-protocol answers ("200 ...")
fn http_post(port: u16, extra_headers: &str, body: &str) -> Result<String, String> {
    let mut s = std::net::TcpStream::connect(("127.0.0.1", port)).map_err(|e| e.to_string())?;
    s.set_read_timeout(Some(std::time::Duration::from_secs(20))).ok();
    let req = format!("POST /command HTTP/1.1\r\nHost: 127.0.0.1\r\nAuthorization: Bearer tok\r\nContent-Type: text/plain\r\n{}Content-Length: {}\r\nConnection: close\r\n\r\n{}", extra_headers, body.len(), body);
    s.write_all(req.as_bytes()).map_err(|e| e.to_string())?;
    let mut buf = Vec::new();
    s.read_to_end(&mut buf).map_err(|e| e.to_string())?;
    let text = String::from_utf8_lossy(&buf).to_string();
    let (head, payload) = text.split_once("\r\n\r\n").unwrap_or((text.as_str(), ""));
    let http_status = head.split_whitespace().nth(1).unwrap_or("0").to_string();
    // chunked bodies: drop the chunk-size lines
    let payload: String = if head.to_ascii_lowercase().contains("transfer-encoding: chunked") {
        payload.split("\r\n").enumerate().filter(|(i, _)| i % 2 == 1).map(|(_, l)| l).collect::<Vec<_>>().join("\n")
    } else {
        payload.to_string()
    };
    let announced = payload.find("\"status\":").and_then(|i| payload[i + 9..].chars().take_while(|c| c.is_ascii_digit()).collect::<String>().parse::<u16>().ok());
    Ok(match announced {
        Some(n) => format!("{} [http {}] {}", n, http_status, payload),
        None => format!("[http {}] {}", http_status, payload),
    })
}

fn user_ids(ex_bypass: bool) -> Vec<&'static str> {
    let mut v = vec!["alice", "bob-2", "carol_x", "Root1", "root1x", "admin", "u", "lives9", "no-auth"];
    if !ex_bypass {
        v.push("bypass");
    }
    v
}

#[derive(Clone, Copy)]
struct Excl {
    bypass_id: bool,
    unchecked_kinds: bool,
    agg_ignores_type: bool,
}

fn case_strategy(tier: Tier, ex: Excl) -> BoxedStrategy<Case> {
    let ids = user_ids(ex.bypass_id);
    let role = prop_oneof![3 => Just(Role::None), 1 => Just(Role::Admin), 1 => Just(Role::ReadOnly), 1 => Just(Role::Viewer), 1 => Just(Role::Editor), 1 => Just(Role::WriteOnly)];
    let type_list = prop::sample::select(vec![vec![0usize], vec![1], vec![0, 1], vec![1, 0], vec![0, 0, 1]]);
    let stmt = (any::<bool>(), any::<bool>(), type_list.clone()).prop_map(|(r, w, t)| if !r && !w { (true, false, t) } else { (r, w, t) });
    let user = (prop::sample::select(ids), role, prop::collection::vec((any::<bool>(), any::<bool>()), 2), prop::collection::vec(stmt, 0..=2)).prop_map(|(id, role, grants, stmts)| UserSpec { id: id.to_string(), grants: if role == Role::None { grants } else { vec![(false, false); 2] }, stmts: if role == Role::None { stmts } else { vec![] }, role });
    (prop::collection::vec(user, 1..=3))
        .prop_flat_map(move |mut users| {
            let mut seen = BTreeSet::new();
            users.retain(|u| seen.insert(u.id.clone()));
            let n = users.len() + 1;
            let kinds: Vec<Kind> = if ex.unchecked_kinds {
                vec![Kind::Store, Kind::Batch, Kind::Query, Kind::Count, Kind::Define, Kind::CreateUser, Kind::Grant, Kind::RevokeKeyOfOther, Kind::ListUsers, Kind::ShowPermissions, Kind::Sequence]
            } else {
                vec![Kind::Store, Kind::Batch, Kind::Query, Kind::ReplayTyped, Kind::ReplayUntyped, Kind::Sequence, Kind::Count, Kind::Compare, Kind::Remember, Kind::Show, Kind::Flush, Kind::Define, Kind::CreateUser, Kind::Grant, Kind::RevokeKeyOfOther, Kind::ListUsers, Kind::ShowPermissions]
            };
            let cred = prop_oneof![4 => Just(Cred::Inline), 2 => Just(Cred::Connection), 2 => Just(Cred::Token), 1 => Just(Cred::WrongKey), 1 => Just(Cred::TruncatedSignature), 1 => Just(Cred::SignatureOfOtherCommand), 1 => Just(Cred::NoCredentials), 1 => Just(Cred::GarbageToken), 2 => Just(Cred::EarlierToken), 2 => Just(Cred::TornAuthToken)];
            let step = prop_oneof![
                20 => (0..n, prop::sample::select(kinds), 0usize..2, cred, any::<bool>(), prop::sample::select(vec![0u8, 0, 0, 1, 2, 3])).prop_map(|(user, kind, ty, cred, tricky_payload, via)| Step::Do { user, kind, ty, cred, tricky_payload, via }),
                1 => (1..n).prop_map(|user| Step::RevokeKey { user }),
                1 => (1..n, 0usize..2, any::<bool>()).prop_map(|(user, ty, read)| Step::RevokeGrant { user, ty, read }),
                2 => (1..n, any::<bool>(), any::<bool>(), prop::sample::select(vec![vec![0usize], vec![1], vec![0, 1], vec![1, 0]]), prop::bool::weighted(0.3)).prop_map(|(user, r, w, types, revoke)| Step::AdminGrant { user, read: r || !w, write: w, types, revoke }),
            ];
            let kinds2 = vec![Kind::Store, Kind::Query, Kind::ReplayTyped, Kind::Define, Kind::CreateUser];
            let expired = crate::hist::opt_w(0.15, (0..n, prop::sample::select(kinds2), 0usize..2));
            (Just(users), prop::collection::vec(step, 6..=tier.pick(24, 40)), expired)
        })
        .prop_map(|(users, steps, expired)| Case { users, steps, expired })
        .boxed()
}

/// reference policy (documented): admin everything; role read-only / viewer read all, editor read+write all,
/// write-only write all; a user without a role has exactly the per-type grants.
fn can_read(u: &UserSpec, grants: &BTreeMap<(String, usize), (bool, bool)>, ty: usize) -> bool {
    match u.role {
        Role::Admin | Role::ReadOnly | Role::Viewer | Role::Editor => true,
        Role::WriteOnly => false,
        Role::None => grants.get(&(u.id.clone(), ty)).map(|g| g.0).unwrap_or(false),
    }
}

fn can_write(u: &UserSpec, grants: &BTreeMap<(String, usize), (bool, bool)>, ty: usize) -> bool {
    match u.role {
        Role::Admin | Role::Editor | Role::WriteOnly => true,
        Role::ReadOnly | Role::Viewer => false,
        Role::None => grants.get(&(u.id.clone(), ty)).map(|g| g.1).unwrap_or(false),
    }
}

static EXCL: Mutex<Option<Excl>> = Mutex::new(None);

fn run_case(c: &Case, rep: &mut CaseReport) -> Verdict {
    let ex = EXCL.lock().unwrap().unwrap_or(Excl { bypass_id: false, unchecked_kinds: false, agg_ignores_type: false });
    let case = CaseDir::new("c13");
    let port = free_port();
    let cfg = DbConfig { session_expiry: if c.expired.is_some() { 2 } else { 300 }, bypass_auth: false, admin_user: Some(ADMIN.into()), admin_key: Some(ADMIN_KEY.into()), tcp_port: port, shard_count: 2, event_per_zone: 1000, fill_factor: 2, ..DbConfig::default() };
    let mut db = match Db::open(&case.path, &cfg) {
        Ok(d) => d,
        Err(e) => {
            rep.inconclusive = Some(format!("start: {:?}", e));
            return Verdict::Discard("start failed".into());
        }
    };
    if db.req(json!({"op":"tcp_start"})).is_err() || db.req(json!({"op":"http_start"})).is_err() {
        return Verdict::Discard("tcp / http start failed".into());
    }
    let mut log: Vec<String> = vec![];
    let mut send = |lines: Vec<String>, log: &mut Vec<String>| -> Result<String, Verdict> {
        for l in &lines {
            log.push(format!("> {}", l));
        }
        match request(port, &lines) {
            Ok(r) => {
                log.push(format!("< {}", r.chars().take(300).collect::<String>().replace('\n', " | ")));
                Ok(r)
            }
            Err(e) => Err(Verdict::Discard(format!("socket: {}", e))),
        }
    };
    let admin_cmd = |cmd: &str| vec![format!("{}:{}:{}", ADMIN, sign(ADMIN_KEY, cmd), cmd)];
    // set-up as admin
    let mut keys: BTreeMap<String, String> = BTreeMap::new();
    keys.insert(ADMIN.into(), ADMIN_KEY.into());
    let mut grants: BTreeMap<(String, usize), (bool, bool)> = BTreeMap::new();
    for t in TYPES {
        let r = match send(admin_cmd(&format!("DEFINE {} FIELDS {{ \"k\": \"int\", \"u\": \"int\", \"s\": \"string\" }}", t)), &mut log) {
            Ok(r) => r,
            Err(v) => return v,
        };
        if !r.starts_with("200") {
            return Verdict::fail("admin-setup-failed", json!({"what": "DEFINE", "response": r, "log": log}));
        }
    }
    let mut nonexistent: BTreeSet<String> = BTreeSet::new();
    for u in &c.users {
        let key = format!("key-of-{}", u.id);
        let roles = match u.role {
            Role::None => String::new(),
            Role::Admin => " WITH ROLES [\"admin\"]".into(),
            Role::ReadOnly => " WITH ROLES [\"read-only\"]".into(),
            Role::Viewer => " WITH ROLES [\"viewer\"]".into(),
            Role::Editor => " WITH ROLES [\"editor\"]".into(),
            Role::WriteOnly => " WITH ROLES [\"write-only\"]".into(),
        };
        let r = match send(admin_cmd(&format!("CREATE USER {} WITH KEY \"{}\"{}", u.id, key, roles)), &mut log) {
            Ok(r) => r,
            Err(v) => return v,
        };
        if !r.starts_with("200") {
            // the system does not let an admin create this id: nobody may act under it
            rep.label("user-id-refused-at-creation");
            keys.insert(u.id.clone(), key);
            nonexistent.insert(u.id.clone());
            continue;
        }
        keys.insert(u.id.clone(), key);
        for (ti, (rd, wr)) in u.grants.iter().enumerate() {
            let mut perms = vec![];
            if *rd {
                perms.push("READ");
            }
            if *wr {
                perms.push("WRITE");
            }
            if !perms.is_empty() {
                let r = match send(admin_cmd(&format!("GRANT {} ON {} TO {}", perms.join(", "), TYPES[ti], u.id)), &mut log) {
                    Ok(r) => r,
                    Err(v) => return v,
                };
                if !r.starts_with("200") {
                    return Verdict::fail("admin-setup-failed", json!({"what": "GRANT", "response": r, "log": log}));
                }
                grants.insert((u.id.clone(), ti), (*rd, *wr));
            }
        }
        for (rd, wr, tys) in &u.stmts {
            let mut perms = vec![];
            if *rd {
                perms.push("READ");
            }
            if *wr {
                perms.push("WRITE");
            }
            let names: Vec<&str> = tys.iter().map(|t| TYPES[*t % 2]).collect();
            let r = match send(admin_cmd(&format!("GRANT {} ON {} TO {}", perms.join(", "), names.join(", "), u.id)), &mut log) {
                Ok(r) => r,
                Err(v) => return v,
            };
            if !r.starts_with("200") {
                return Verdict::fail("admin-setup-failed", json!({"what": "GRANT (multi-type)", "response": r, "log": log}));
            }
            rep.label("history:multi-type-grant");
            for t in tys {
                let e = grants.entry((u.id.clone(), *t % 2)).or_insert((false, false));
                e.0 |= *rd;
                e.1 |= *wr;
            }
        }
    }
    // some data per type, stored by the admin
    let mut stored: Vec<BTreeSet<i64>> = vec![BTreeSet::new(), BTreeSet::new()];
    let mut next_k: i64 = K_BASE;
    for ti in 0..2 {
        for j in 0..3 {
            let k = next_k;
            next_k += 1;
            let cmd = format!("STORE {} FOR c{} PAYLOAD {{\"k\": {}, \"u\": {}, \"s\": \"x\"}}", TYPES[ti], j % 2, k, j % 2);
            match send(admin_cmd(&cmd), &mut log) {
                Ok(r) if r.starts_with("200") => {
                    stored[ti].insert(k);
                }
                Ok(r) => return Verdict::fail("admin-setup-failed", json!({"what": "STORE", "response": r, "log": log})),
                Err(v) => return v,
            }
        }
    }
    let all_users: Vec<UserSpec> = std::iter::once(UserSpec { id: ADMIN.into(), role: Role::Admin, grants: vec![], stmts: vec![] }).chain(c.users.iter().cloned()).collect();
    // a session token per user, obtained now
    let mut early_tokens: BTreeMap<String, String> = BTreeMap::new();
    let t_tokens = std::time::Instant::now();
    for u in &all_users {
        if nonexistent.contains(&u.id) {
            continue;
        }
        let key = keys.get(&u.id).cloned().unwrap_or_default();
        match send(vec![format!("AUTH {}:{}", u.id, sign(&key, &u.id))], &mut log) {
            Ok(r) => match r.strip_prefix("OK TOKEN ") {
                Some(tok) => {
                    early_tokens.insert(u.id.clone(), tok.trim().to_string());
                }
                None => return Verdict::fail("valid-auth-refused", json!({"user": u.id, "response": r, "log": log})),
            },
            Err(v) => return v,
        }
    }
    let mut steps: Vec<(Step, bool)> = c.steps.iter().cloned().map(|s| (s, false)).collect();
    // closing permission matrix: every user x event type, one write probe and one read probe with valid credentials
    for ui in 1..all_users.len() {
        for ty in 0..2 {
            steps.push((Step::Do { user: ui, kind: Kind::Store, ty, cred: Cred::Inline, tricky_payload: false, via: (ui + ty) as u8 % 4 }, false));
            steps.push((Step::Do { user: ui, kind: Kind::Query, ty, cred: Cred::Inline, tricky_payload: false, via: (ui + ty + 1) as u8 % 4 }, false));
        }
    }
    if let Some((user, kind, ty)) = &c.expired {
        steps.push((Step::Do { user: *user, kind: kind.clone(), ty: *ty, cred: Cred::EarlierToken, tricky_payload: false, via: 0 }, true));
    }
    let mut revoked: BTreeSet<String> = BTreeSet::new();
    let mut remembered: Vec<Option<String>> = vec![None, None];
    for ti in 0..2 {
        if let Ok(r) = send(admin_cmd(&format!("REMEMBER QUERY {} AS adm{}", TYPES[ti], ti)), &mut log) {
            if r.starts_with("200") {
                remembered[ti] = Some(format!("adm{}", ti));
            }
        }
    }
    let mut created_extra = 0;
    for (si, (st, after_expiry)) in steps.iter().enumerate() {
        if *after_expiry {
            // the session expiry is 2 s with whole-second granularity: after 3.2 s the token is dead
            let need = std::time::Duration::from_millis(3200);
            if t_tokens.elapsed() < need {
                std::thread::sleep(need - t_tokens.elapsed());
            }
            rep.label("cred:ExpiredToken");
        }
        match st {
            Step::RevokeKey { user } => {
                let u = &all_users[*user % all_users.len()];
                if u.id == ADMIN {
                    continue;
                }
                if let Err(v) = send(admin_cmd(&format!("REVOKE KEY {}", u.id)), &mut log) {
                    return v;
                }
                revoked.insert(u.id.clone());
                rep.label("history:revoke-key");
            }
            Step::RevokeGrant { user, ty, read } => {
                let u = &all_users[*user % all_users.len()];
                if u.id == ADMIN || u.role != Role::None {
                    continue;
                }
                let p = if *read { "READ" } else { "WRITE" };
                if let Err(v) = send(admin_cmd(&format!("REVOKE {} ON {} FROM {}", p, TYPES[*ty], u.id)), &mut log) {
                    return v;
                }
                let e = grants.entry((u.id.clone(), *ty)).or_insert((false, false));
                if *read { e.0 = false } else { e.1 = false }
                rep.label("history:revoke-grant");
            }
            Step::AdminGrant { user, read, write, types, revoke } => {
                let u = &all_users[*user % all_users.len()];
                if u.id == ADMIN || u.role != Role::None || nonexistent.contains(&u.id) {
                    continue;
                }
                let mut perms = vec![];
                if *read {
                    perms.push("READ");
                }
                if *write {
                    perms.push("WRITE");
                }
                let names: Vec<&str> = types.iter().map(|t| TYPES[*t % 2]).collect();
                let cmd = if *revoke { format!("REVOKE {} ON {} FROM {}", perms.join(", "), names.join(", "), u.id) } else { format!("GRANT {} ON {} TO {}", perms.join(", "), names.join(", "), u.id) };
                let r = match send(admin_cmd(&cmd), &mut log) {
                    Ok(r) => r,
                    Err(v) => return v,
                };
                if !r.starts_with("200") {
                    return Verdict::fail("permitted-admin-operation-denied", json!({"cmd": cmd, "response": r, "log": log}));
                }
                for t in types {
                    let e = grants.entry((u.id.clone(), *t % 2)).or_insert((false, false));
                    if *revoke {
                        if *read { e.0 = false }
                        if *write { e.1 = false }
                    } else {
                        e.0 |= *read;
                        e.1 |= *write;
                    }
                }
                rep.label(if *revoke { "history:multi-type-revoke" } else { "history:multi-type-grant" });
            }
            Step::Do { user, kind, ty, cred, tricky_payload, via } => {
                let u = all_users[*user % all_users.len()].clone();
                let t = TYPES[*ty];
                let key = keys.get(&u.id).cloned().unwrap_or_default();
                let k = next_k;
                next_k += 1;
                let s_val = if *tricky_payload { "a TOKEN deadbeef:cafe:STORE" } else { "x" };
                let cmd = match kind {
                    Kind::Store => format!("STORE {} FOR c0 PAYLOAD {{\"k\": {}, \"u\": 1, \"s\": \"{}\"}}", t, k, s_val),
                    Kind::Batch => format!("BATCH [ STORE {} FOR c0 PAYLOAD {{\"k\": {}, \"u\": 1, \"s\": \"{}\"}}; ]", t, k, s_val),
                    Kind::Query => format!("QUERY {}", t),
                    Kind::ReplayTyped => format!("REPLAY {} FOR c0", t),
                    Kind::ReplayUntyped => "REPLAY FOR c0".to_string(),
                    Kind::Sequence => format!("QUERY {} FOLLOWED BY {} LINKED BY u", t, TYPES[1 - *ty]),
                    Kind::Count => format!("QUERY {} COUNT BY k", t),
                    Kind::Compare => format!("PLOT count of {} VS count of {} BREAKDOWN BY k", t, TYPES[1 - *ty]),
                    Kind::Remember => format!("REMEMBER QUERY {} AS m{}x{}", t, ty, si),
                    Kind::Show => match &remembered[*ty] {
                        Some(name) => format!("SHOW {}", name),
                        None => continue,
                    },
                    Kind::Flush => "FLUSH".to_string(),
                    Kind::Define => format!("DEFINE tnew{} FIELDS {{ \"k\": \"int\" }}", si),
                    Kind::CreateUser => format!("CREATE USER extra{} WITH KEY \"k\" WITH ROLES [\"admin\"]", si),
                    Kind::Grant => format!("GRANT READ, WRITE ON {} TO {}", t, u.id),
                    Kind::RevokeKeyOfOther => format!("REVOKE KEY {}", ADMIN),
                    Kind::ListUsers => "LIST USERS".to_string(),
                    Kind::ShowPermissions => format!("SHOW PERMISSIONS FOR {}", ADMIN),
                };
                if *kind == Kind::RevokeKeyOfOther && u.role == Role::Admin {
                    continue; // an admin revoking the bootstrap admin would end the case
                }
                // credentials
                let authentic = !revoked.contains(&u.id) && !nonexistent.contains(&u.id);
                let (lines, cred_valid): (Vec<String>, bool) = match cred {
                    Cred::Inline => (vec![format!("{}:{}:{}", u.id, sign(&key, &cmd), cmd)], authentic),
                    Cred::Connection => (vec![format!("AUTH {}:{}", u.id, sign(&key, &u.id)), format!("{}:{}", sign(&key, &cmd), cmd)], authentic),
                    Cred::Token => {
                        // obtain a token first
                        let r = match send(vec![format!("AUTH {}:{}", u.id, sign(&key, &u.id))], &mut log) {
                            Ok(r) => r,
                            Err(v) => return v,
                        };
                        match r.strip_prefix("OK TOKEN ") {
                            Some(tok) => (vec![format!("{} TOKEN {}", cmd, tok.trim())], authentic),
                            None => {
                                if authentic {
                                    return Verdict::fail("valid-auth-refused", json!({"user": u.id, "response": r, "log": log}));
                                }
                                continue;
                            }
                        }
                    }
                    Cred::WrongKey => (vec![format!("{}:{}:{}", u.id, sign("not-the-key", &cmd), cmd)], false),
                    Cred::TruncatedSignature => {
                        let sg = sign(&key, &cmd);
                        (vec![format!("{}:{}:{}", u.id, &sg[..32], cmd)], false)
                    }
                    Cred::SignatureOfOtherCommand => (vec![format!("{}:{}:{}", u.id, sign(&key, "PING"), cmd)], false),
                    Cred::NoCredentials => (vec![cmd.clone()], false),
                    Cred::GarbageToken => (vec![format!("{} TOKEN {}", cmd, "0".repeat(64))], false),
                    Cred::TornAuthToken => {
                        // only for users whose first AUTH step can have succeeded at some time (they authenticated after creation)
                        let minted = if early_tokens.contains_key(&u.id) { db.req(json!({"op":"mint_token","user":u.id})).ok().and_then(|v| v["token"].as_str().map(|s| s.to_string())) } else { None };
                        match minted {
                            Some(tok) => {
                                log.push(format!("# AUTH of {} completes now (token minted)", u.id));
                                (vec![format!("{} TOKEN {}", cmd, tok)], authentic)
                            }
                            None => (vec![format!("{}:{}:{}", u.id, sign(&key, &cmd), cmd)], authentic),
                        }
                    }
                    Cred::EarlierToken => match early_tokens.get(&u.id) {
                        // in a case with the short expiry an early token is only judged once it is certainly dead
                        Some(tok) if *after_expiry => (vec![format!("{} TOKEN {}", cmd, tok)], false),
                        Some(tok) if c.expired.is_none() => (vec![format!("{} TOKEN {}", cmd, tok)], authentic),
                        _ => (vec![format!("{}:{}:{}", u.id, sign(&key, &cmd), cmd)], authentic),
                    },
                };
                rep.label(format!("cred:{:?}", cred));
                rep.label(format!("kind:{:?}", kind));
                let signature_form = matches!(cred, Cred::Inline | Cred::WrongKey | Cred::TruncatedSignature | Cred::SignatureOfOtherCommand | Cred::NoCredentials) && lines.len() == 1 && !*after_expiry;
                let via = if signature_form { *via } else { 0 };
                rep.label(format!("via:{}", ["tcp", "unix", "http-headers", "http-inline"][via as usize % 4]));
                let resp = match via % 4 {
                    1 => {
                        log.push(format!("> [unix] {}", lines[0]));
                        match db.req(json!({"op":"unix_conn","lines":lines})) {
                            Ok(v) => {
                                let r = v["out"].as_str().unwrap_or("").to_string();
                                log.push(format!("< {}", r.chars().take(300).collect::<String>().replace('\n', " | ")));
                                r
                            }
                            Err(_) => return Verdict::Discard("unix connection op failed".into()),
                        }
                    }
                    2 | 3 => {
                        // headers: user and signature travel in X-Auth-User / X-Auth-Signature, the body is the bare command
                        let (headers, body) = if via % 4 == 2 && *cred != Cred::NoCredentials {
                            let mut it = lines[0].splitn(3, ':');
                            let (u0, s0, c0) = (it.next().unwrap_or(""), it.next().unwrap_or(""), it.next().unwrap_or(""));
                            (format!("X-Auth-User: {}\r\nX-Auth-Signature: {}\r\n", u0, s0), c0.to_string())
                        } else {
                            (String::new(), lines[0].clone())
                        };
                        log.push(format!("> [http] {}| {}", headers.replace("\r\n", " "), body));
                        match http_post(port + 1, &headers, &body) {
                            Ok(r) => {
                                log.push(format!("< {}", r.chars().take(300).collect::<String>().replace('\n', " | ")));
                                r
                            }
                            Err(e) => return Verdict::Discard(format!("http: {}", e)),
                        }
                    }
                    _ => match send(lines, &mut log) {
                        Ok(r) => r,
                        Err(v) => return v,
                    },
                };
                // the first line of a connection-authenticated conversation answers the AUTH itself
                let resp = if *cred == Cred::Connection { resp.split_once('\n').map(|x| x.1.to_string()).unwrap_or_default() } else { resp };
                rep.sub_evals += 1;
                // what the policy says
                let needs_admin = matches!(kind, Kind::Define | Kind::CreateUser | Kind::Grant | Kind::RevokeKeyOfOther | Kind::ListUsers | Kind::ShowPermissions);
                let permitted = cred_valid
                    && match kind {
                        Kind::Store | Kind::Batch => can_write(&u, &grants, *ty),
                        Kind::Query | Kind::ReplayTyped | Kind::Count | Kind::Remember | Kind::Show => can_read(&u, &grants, *ty),
                        Kind::ReplayUntyped => can_read(&u, &grants, 0) && can_read(&u, &grants, 1),
                        Kind::Sequence | Kind::Compare => can_read(&u, &grants, 0) && can_read(&u, &grants, 1),
                        Kind::Flush => true,
                        _ => u.role == Role::Admin,
                    };
                // effects
                let leaked: Vec<i64> = stored.iter().flat_map(|s| s.iter()).filter(|kv| resp.contains(&kv.to_string())).cloned().collect();
                let detail = |why: &str, extra: Value, log: &Vec<String>| json!({"why": why, "step": si, "user": u.id, "role": u.role, "grants": [grants.get(&(u.id.clone(), 0)), grants.get(&(u.id.clone(), 1))], "kind": kind, "type": t, "cred": cred, "revoked": revoked.contains(&u.id), "response": resp.chars().take(400).collect::<String>(), "extra": extra, "log": log});
                match kind {
                    Kind::Query | Kind::ReplayTyped | Kind::ReplayUntyped | Kind::Sequence | Kind::Count | Kind::Compare | Kind::Show => {
                        // which stored events may the requester see at all?
                        // open C09 finding: aggregates over in-memory rows ignore the event type, so a permitted aggregate
                        // over one type also shows rows of the other; judged on the queried type(s) only while that is open
                        let agg_all = ex.agg_ignores_type && matches!(kind, Kind::Count | Kind::Compare) && permitted;
                        let allowed: BTreeSet<i64> = if !cred_valid { BTreeSet::new() } else if agg_all { stored.iter().flat_map(|s| s.iter().cloned()).collect() } else { (0..2).filter(|ti| can_read(&u, &grants, *ti)).flat_map(|ti| stored[ti].iter().cloned()).collect() };
                        let forbidden: Vec<i64> = leaked.iter().filter(|kv| !allowed.contains(kv)).cloned().collect();
                        if !forbidden.is_empty() {
                            return Verdict::fail(format!("events-leaked:{:?}", kind), detail("a response carries events of a type the requester may not read (or the request was not authenticated)", json!({"leaked_k": forbidden}), &log));
                        }
                        if permitted && matches!(kind, Kind::Query | Kind::ReplayTyped) {
                            let want: Vec<i64> = if *kind == Kind::Query { stored[*ty].iter().cloned().collect() } else { vec![] };
                            if want.iter().any(|kv| !resp.contains(&kv.to_string())) {
                                return Verdict::fail("permitted-read-denied", detail("a permitted read did not return the stored events", json!({"want": want}), &log));
                            }
                        }
                    }
                    Kind::Store | Kind::Batch => {
                        // visible to the admin afterwards?
                        let q = format!("QUERY {} WHERE k = {}", t, k);
                        let r = match send(admin_cmd(&q), &mut log) {
                            Ok(r) => r,
                            Err(v) => return v,
                        };
                        let present = r.contains(&k.to_string()) && r.contains("batch");
                        if present && !permitted {
                            return Verdict::fail("unauthorised-write-executed", detail("a STORE that must be refused left an event", json!({"k": k}), &log));
                        }
                        if !present && permitted && *kind == Kind::Store {
                            return Verdict::fail("permitted-write-denied", detail("a permitted STORE left no event", json!({"k": k}), &log));
                        }
                        if present {
                            stored[*ty].insert(k);
                        }
                    }
                    Kind::Remember => {
                        if resp.starts_with("200") {
                            if !permitted {
                                return Verdict::fail("unauthorised-remember-executed", detail("REMEMBER executed without read permission / authentication", json!(null), &log));
                            }
                            remembered[*ty] = Some(format!("m{}x{}", ty, si));
                        }
                    }
                    Kind::Flush => {
                        if !cred_valid && resp.starts_with("200") {
                            return Verdict::fail("unauthenticated-flush-executed", detail("FLUSH executed without authentication", json!(null), &log));
                        }
                    }
                    Kind::Define | Kind::CreateUser | Kind::Grant | Kind::RevokeKeyOfOther | Kind::ListUsers | Kind::ShowPermissions => {
                        if resp.starts_with("200") && !permitted {
                            return Verdict::fail(format!("admin-operation-executed:{:?}", kind), detail("an admin-only operation succeeded for a non-admin / unauthenticated request", json!(null), &log));
                        }
                        if !resp.starts_with("200") && permitted && *kind != Kind::Grant {
                            return Verdict::fail("permitted-admin-operation-denied", detail("an admin's operation was refused", json!(null), &log));
                        }
                        if resp.starts_with("200") && *kind == Kind::CreateUser {
                            created_extra += 1;
                        }
                        if resp.starts_with("200") && *kind == Kind::Grant {
                            grants.insert((u.id.clone(), *ty), (true, true));
                        }
                        let _ = needs_admin;
                    }
                }
                if u.id != ADMIN && !matches!(kind, Kind::Store | Kind::Query | Kind::Define) {
                    rep.nontrivial = true;
                }
            }
        }
        if !db.panics.is_empty() {
            return Verdict::fail("panic-in-worker", json!({"panics": db.panics, "log": log}));
        }
    }
    let _ = created_extra;
    rep.sample = Some(json!({"users": c.users, "steps": c.steps.len(), "first_lines": log.iter().take(6).collect::<Vec<_>>()}));
    db.kill();
    Verdict::Pass
}

pub fn replay(_check: &str, case: &Value) -> Verdict {
    match serde_json::from_value::<Case>(case.clone()) {
        Ok(c) => run_case(&c, &mut CaseReport::default()),
        Err(e) => Verdict::Discard(format!("bad case: {}", e)),
    }
}

pub fn run(ctx: &Ctx) -> i32 {
    let stats = Mutex::new(Stats::default());
    let mut report = Report::new(
        "C13",
        "exploration",
        "generated (1-3 users with ids from everything the id validator admits - incl. look-alikes of the admin id, 'admin', 'no-auth', 'bypass' -, roles none / admin / read-only / viewer / editor / write-only, per-type READ / WRITE grants; 6-40 steps: a command of every kind (STORE, BATCH [STORE], QUERY, typed / untyped REPLAY, sequence query, aggregate, comparison (PLOT .. VS ..), REMEMBER, SHOW, FLUSH, DEFINE, CREATE USER, GRANT, REVOKE KEY, LIST USERS, SHOW PERMISSIONS) under an identity with one of ten credential forms (inline signature, connection AUTH + signed command, fresh session token, a session token obtained before later revocations, a session token used after the 2 s expiry has certainly passed, wrong key, truncated signature, signature of another command, no credentials, garbage token), payloads containing ' TOKEN ' and ':'; key and grant revocations in between). The worker runs the real TCP and HTTP listeners and the Unix-socket front end's connection type; every request is a socket (or in-memory pipe) conversation: connection AUTH and tokens over TCP, signature-based forms over TCP, the Unix connection, HTTP with X-Auth-User / X-Auth-Signature headers, or HTTP with the inline form in the body. Every history ends with a permission matrix: each user x event type gets one write probe and one read probe with valid credentials. Oracle on effects: a response never carries events of a type the requester may not read; a refused STORE leaves no event (checked by the admin), a permitted one does; admin-only operations succeed exactly for admins; revocation holds from the next request. Non-trivial: a non-admin identity issuing something other than STORE / QUERY / DEFINE.",
    );
    report.assumptions = vec!["reference policy: users have either a role or per-type grants (the interplay of both is documented ambiguously and not generated)".into()];
    let ex = Excl { bypass_id: ctx.open("auth.user_id_bypass"), unchecked_kinds: ctx.open("auth.commands_without_identity"), agg_ignores_type: ctx.open_any("agg.special_fields_skipped") };
    *EXCL.lock().unwrap() = Some(ex);
    replay_known(ctx, &stats, &mut report, &replay);
    replay_regressions(ctx, &stats, &mut report, &replay);
    let cases = ctx.tier.pick(160, 3000);
    let tier = ctx.tier;
    if let Some(f) = explore(ctx, "auth", || case_strategy(tier, ex), Explore { cases, max_shrink_iters: ctx.tier.pick(100, 400), lanes: ctx.lanes }, &stats, run_case) {
        report.violations.push(f);
    }
    finish(ctx, stats.into_inner().unwrap(), report)
}
