//! C20 - every response encoding carries the same rows and values.

use crate::db::DbConfig;
use crate::fw::*;
use crate::hist::*;
use crate::props::c02::problem_verdict;
use arrow_array::{Array, BooleanArray, Float64Array, Int64Array, LargeStringArray, RecordBatch, StringArray, TimestampMillisecondArray};
use base64::Engine as _;
use proptest::prelude::*;
use serde::{Deserialize, Serialize};
use serde_json::{Value, json};
use std::sync::Mutex;

#[derive(Clone, Debug, Serialize, Deserialize)]
pub struct Case {
    pub cfg: DbConfig,
    pub td: TypeDef,
    pub n_ctx: usize,
    pub ops: Vec<Op>,
    pub queries: Vec<String>,
}

fn enc_typedef() -> TypeDef {
    let f = |n: &str, ty: FT, opt: bool| FieldDef { name: n.into(), alias: aliases(&ty)[0].to_string(), ty, opt };
    TypeDef {
        name: "ev".into(),
        fields: vec![f("i", FT::Int, false), f("u", FT::U64, false), f("f", FT::Float, false), f("s", FT::Str, false), f("b", FT::Bool, false), f("e", FT::Enum(vec!["v0".into(), "v1".into()]), false), f("t", FT::Datetime, false), f("oi", FT::Int, true), f("of", FT::Float, true)],
    }
}

#[derive(Clone, Copy)]
struct Excl {
    typed_strings: bool,
    big_u64: bool,
    null_string: bool,
    min_max: bool,
    replay: bool,
}

fn case_strategy(tier: Tier, ex: Excl) -> BoxedStrategy<Case> {
    let td = enc_typedef();
    (cfg_strategy(2), 1usize..=3)
        .prop_flat_map(move |(cfg, n_ctx)| {
            // typed-looking strings and u64 above i64::MAX are generated although two findings about them are open: those findings
            // concern the ARROW encoding only (known_arrow_divergence below); JSON and text are compared on every cell
            let _ = (ex.typed_strings, ex.big_u64);
            let strs: Vec<&'static str> = vec!["", "a", "é", "日本", "a b", "x\"y", "10", "1.5", "true", "null", "[1]", "[1,2,3]", "18446744073709551615"];
            let us: Vec<u64> = vec![0, 1, 4_000_000_000, i64::MAX as u64, i64::MAX as u64 + 1, u64::MAX];
            let ev = (
                0..n_ctx,
                prop::sample::select(vec![i64::MIN, i64::MIN + 1, -1, 0, 1, 1 << 53, (1 << 53) + 1, i64::MAX - 1, i64::MAX]),
                prop::sample::select(us),
                prop::sample::select(vec![0.0f64, -0.0, 1.0, 2.0, 0.5, -2.25, 1e300, 5e-324, 1e15]),
                prop::sample::select(strs),
                any::<bool>(),
                0usize..2,
                0i64..4_000_000_000,
                prop::option::weighted(0.6, prop::sample::select(vec![i64::MIN, -1, 0, 7, i64::MAX])),
                prop::option::weighted(0.6, prop::sample::select(vec![0.0f64, 2.0, -1.5])),
            )
                .prop_map(|(ctx, i, u, f, s, b, e, t, oi, of)| Ev {
                    ty: 0,
                    ctx,
                    vals: vec![json!(i), json!(u), json!(f), json!(s), json!(b), json!(format!("v{}", e)), json!(t), oi.map(|v| json!(v)).unwrap_or(Value::Null), of.map(|v| json!(v)).unwrap_or(Value::Null)],
                });
            let op = prop_oneof![30 => ev.prop_map(Op::Store), 3 => Just(Op::Flush), 1 => (1u8..=2).prop_map(Op::Compact)];
            let q = prop::sample::select(vec![
                "QUERY ev",
                "QUERY ev RETURN [i, u]",
                "QUERY ev RETURN [f, s, b]",
                "QUERY ev RETURN [e, t, oi, of]",
                "QUERY ev WHERE i >= 0",
                "QUERY ev WHERE i < -5000000000000000000000",
                "QUERY ev LIMIT 2",
                "QUERY ev LIMIT 3 OFFSET 1",
                "QUERY ev LIMIT 100 OFFSET 2",
                "QUERY ev RETURN [k, i] LIMIT 2 OFFSET 2",
                "QUERY ev LIMIT 0",
                "QUERY ev FOR c0",
                "QUERY ev FOR c0 RETURN [s]",
                "REPLAY FOR c0",
                "REPLAY ev FOR c1 RETURN [i]",
                "QUERY ev COUNT",
                "QUERY ev COUNT BY e",
                "QUERY ev COUNT, TOTAL oi, MIN i, MAX i BY b",
                "QUERY ev AVG oi PER DAY USING t",
                "QUERY nosuch",
                "QUERY ev OFFSET 3",
                "QUERY ev WHERE nosuchfield = 1",
                "QUERY ev ORDER BY i",
                "PING",
                "FLUSHX",
                "SHOW nosuchview",
            ])
            .prop_map(move |s| if ex.replay && s.starts_with("REPLAY") { "QUERY ev FOR c1".to_string() } else if ex.min_max && (s.contains("MIN ") || s.contains("MAX ")) { "QUERY ev COUNT, TOTAL oi BY b".to_string() } else { s.to_string() });
            (Just(cfg), Just(td.clone()), Just(n_ctx), prop::collection::vec(op, 3..=tier.pick(25, 50)), prop::collection::vec(q, 3..=tier.pick(8, 14)))
        })
        .prop_map(|(cfg, td, n_ctx, ops, queries)| Case { cfg, td, n_ctx, ops, queries })
        .boxed()
}

#[derive(Debug, Clone, PartialEq)]
pub struct Decoded {
    pub status: u16,
    pub columns: Vec<String>,
    pub rows: Vec<Vec<Value>>,
    pub announced: Option<u64>,
    pub streamed: bool,
}

/// Arrow IPC stream -> rows of JSON values (numbers, strings, bools, nulls); timestamps in epoch seconds
pub fn decode_arrow(bytes: &[u8]) -> Result<Decoded, String> {
    let reader = arrow_ipc::reader::StreamReader::try_new(std::io::Cursor::new(bytes), None).map_err(|e| format!("arrow stream: {}", e))?;
    let schema = reader.schema();
    let columns: Vec<String> = schema.fields().iter().map(|f| f.name().clone()).collect();
    let mut rows: Vec<Vec<Value>> = vec![];
    for batch in reader {
        let batch: RecordBatch = batch.map_err(|e| format!("arrow batch: {}", e))?;
        for r in 0..batch.num_rows() {
            let mut row = vec![];
            for c in 0..batch.num_columns() {
                let col = batch.column(c);
                let v = if col.is_null(r) {
                    Value::Null
                } else if let Some(a) = col.as_any().downcast_ref::<Int64Array>() {
                    json!(a.value(r))
                } else if let Some(a) = col.as_any().downcast_ref::<Float64Array>() {
                    json!(a.value(r))
                } else if let Some(a) = col.as_any().downcast_ref::<BooleanArray>() {
                    json!(a.value(r))
                } else if let Some(a) = col.as_any().downcast_ref::<TimestampMillisecondArray>() {
                    json!({"ts_millis": a.value(r)})
                } else if let Some(a) = col.as_any().downcast_ref::<LargeStringArray>() {
                    json!(a.value(r))
                } else if let Some(a) = col.as_any().downcast_ref::<StringArray>() {
                    json!(a.value(r))
                } else {
                    json!({"unsupported_arrow_type": format!("{:?}", col.data_type())})
                };
                row.push(v);
            }
            rows.push(row);
        }
    }
    Ok(Decoded { status: 200, columns, rows, announced: None, streamed: true })
}

fn decode_json_like(raw: &str) -> Decoded {
    let mut r = crate::db::Resp::default();
    crate::db::parse_json_output(raw, &mut r);
    Decoded { status: r.status, columns: r.columns.iter().map(|c| c.0.clone()).collect(), rows: r.rows, announced: r.end_count, streamed: r.streamed }
}

/// the one-shot (non streaming) rendering of the text renderer: "<code> <message>\n<lines>"
fn decode_unix_oneshot(raw: &str) -> Option<u16> {
    raw.lines().next().and_then(|l| l.split_whitespace().next()).and_then(|c| c.parse::<u16>().ok())
}

fn cells_equal(a: &Value, b: &Value) -> bool {
    match (a, b) {
        (Value::Null, Value::Null) => true,
        (Value::Number(_), Value::Number(_)) => {
            if let (Some(x), Some(y)) = (a.as_i64(), b.as_i64()) {
                return x == y;
            }
            if let (Some(x), Some(y)) = (a.as_u64(), b.as_u64()) {
                return x == y;
            }
            match (a.as_f64(), b.as_f64()) {
                (Some(x), Some(y)) => x == y && !(a.is_f64() != b.is_f64() && x.abs() > 9.0e15),
                _ => false,
            }
        }
        // an Arrow timestamp cell carries milliseconds; the JSON encodings carry epoch seconds
        (Value::Object(o), Value::Number(_)) | (Value::Number(_), Value::Object(o)) if o.contains_key("ts_millis") => {
            // the statement asks for numerically equal numbers: the raw Arrow value is compared with the JSON
            // number (observed: the engine stores epoch SECONDS in a column typed Timestamp(Millisecond); a
            // reader honouring the Arrow type sees another instant - recorded in DESIGN.md as an observation)
            let raw = o["ts_millis"].as_i64().unwrap_or(i64::MIN);
            let n = if a.is_number() { a } else { b };
            n.as_i64().map(|s| s == raw || s.checked_mul(1000) == Some(raw)).unwrap_or(false)
        }
        (Value::String(x), Value::String(y)) => x == y,
        (Value::Bool(x), Value::Bool(y)) => x == y,
        _ => false,
    }
}

pub static ARROW_TYPED_STRING_OPEN: std::sync::atomic::AtomicBool = std::sync::atomic::AtomicBool::new(false);
pub static ARROW_BIG_U64_OPEN: std::sync::atomic::AtomicBool = std::sync::atomic::AtomicBool::new(false);

/// the two open findings about the Arrow encoding, cell by cell: (a) a stored string that looks like another JSON type is a
/// typed value in JSON / text and the string in Arrow; (b) a u64 above i64::MAX is the number in JSON / text and null in Arrow
fn known_arrow_divergence(cj: &Value, ca: &Value) -> bool {
    use std::sync::atomic::Ordering::Relaxed;
    if ARROW_TYPED_STRING_OPEN.load(Relaxed) {
        if let (false, Value::String(s)) = (cj.is_string(), ca) {
            if serde_json::from_str::<Value>(s).map(|v| &v == cj || (v.is_number() && cj.is_number() && v.as_f64() == cj.as_f64())).unwrap_or(false) {
                return true;
            }
        }
    }
    if ARROW_BIG_U64_OPEN.load(Relaxed) && ca.is_null() && cj.as_u64().map(|u| u > i64::MAX as u64).unwrap_or(false) {
        return true;
    }
    false
}

fn canon(rows: &[Vec<Value>]) -> Vec<String> {
    let mut v: Vec<String> = rows.iter().map(|r| serde_json::to_string(r).unwrap_or_default()).collect();
    v.sort();
    v
}

fn run_case(c: &Case, rep: &mut CaseReport) -> Verdict {
    let types = vec![c.td.clone()];
    let mut w = match World::start("c20", &c.cfg, &types, false) {
        Ok(w) => w,
        Err(e) => {
            rep.inconclusive = Some(format!("start: {:?}", e));
            return Verdict::Discard("start failed".into());
        }
    };
    for op in &c.ops {
        if let Err(e) = w.apply(op) {
            return problem_verdict(e, &mut w, rep);
        }
    }
    if let Err(e) = w.db.barrier() {
        return problem_verdict(Problem::Db(e), &mut w, rep);
    }
    if w.id_reused && crate::props::c02::KNOWN_ID_REUSE.load(std::sync::atomic::Ordering::Relaxed) {
        rep.excluded_known += 1;
        return Verdict::Discard("known: retired segment id re-created in the same process lifetime".into());
    }
    for q in &c.queries {
        let mut outs: Vec<(String, Decoded, String)> = vec![];
        for renderer in ["json", "unix", "arrow"] {
            let r = match w.db.cmd_with(q, renderer, None, false) {
                Ok(r) => r,
                Err(e) => return problem_verdict(Problem::Db(e), &mut w, rep),
            };
            if !r.panics.is_empty() || r.dispatch_panic {
                return Verdict::fail("panic", json!({"cmd": q, "renderer": renderer, "panics": r.panics, "log": w.db.log}));
            }
            if let Some(pe) = &r.parse_error {
                outs.push((renderer.to_string(), Decoded { status: 400, columns: vec![], rows: vec![], announced: None, streamed: false }, pe.clone()));
                continue;
            }
            let d = if renderer == "arrow" {
                let bytes: Vec<u8> = match &r.raw_b64 {
                    Some(b) => base64::engine::general_purpose::STANDARD.decode(b).unwrap_or_default(),
                    None => r.raw.clone().into_bytes(),
                };
                if bytes.first() == Some(&b'{') {
                    // one-shot fallback of the Arrow renderer is a JSON object
                    let mut d = decode_json_like(&String::from_utf8_lossy(&bytes));
                    if let Ok(v) = serde_json::from_slice::<Value>(bytes.split(|b| *b == b'\n').next().unwrap_or(&[])) {
                        d.status = v["status"].as_u64().unwrap_or(0) as u16;
                    }
                    d
                } else {
                    match decode_arrow(&bytes) {
                        Ok(d) => d,
                        Err(e) => return Verdict::fail("arrow-stream-undecodable", json!({"cmd": q, "error": e, "bytes": bytes.len(), "log": w.db.log})),
                    }
                }
            } else if renderer == "unix" && !r.raw.trim_start().starts_with('{') {
                Decoded { status: decode_unix_oneshot(&r.raw).unwrap_or(0), columns: vec![], rows: vec![], announced: None, streamed: false }
            } else {
                decode_json_like(&r.raw)
            };
            outs.push((renderer.to_string(), d, r.raw.chars().take(300).collect()));
        }
        rep.sub_evals += 1;
        let (j, u, a) = (&outs[0].1, &outs[1].1, &outs[2].1);
        // status codes agree
        if j.status != u.status || j.status != a.status {
            return Verdict::fail("status-differs", json!({"cmd": q, "json": j.status, "unix": u.status, "arrow": a.status, "raw": outs.iter().map(|o| o.2.clone()).collect::<Vec<_>>(), "log": w.db.log}));
        }
        if !j.streamed {
            rep.label(format!("oneshot:{}", j.status));
            continue;
        }
        // announced row count = emitted rows
        for (name, d) in [("json", j), ("unix", u)] {
            if let Some(n) = d.announced {
                if n as usize != d.rows.len() {
                    return Verdict::fail("row-count-differs-from-rows", json!({"cmd": q, "renderer": name, "announced": n, "rows": d.rows.len(), "log": w.db.log}));
                }
            } else {
                return Verdict::fail("missing-end-frame", json!({"cmd": q, "renderer": name, "log": w.db.log}));
            }
        }
        // same columns, same number of rows, same cells
        if j.columns != u.columns || j.columns != a.columns {
            return Verdict::fail("columns-differ", json!({"cmd": q, "json": j.columns, "unix": u.columns, "arrow": a.columns, "log": w.db.log}));
        }
        if j.rows.len() != u.rows.len() || j.rows.len() != a.rows.len() {
            return Verdict::fail("row-number-differs", json!({"cmd": q, "json": j.rows.len(), "unix": u.rows.len(), "arrow": a.rows.len(), "log": w.db.log}));
        }
        // LIMIT without ORDER BY admits any n of the matching rows, and the three dispatches are three executions:
        // only the rows that two answers have in common (by event_id) are compared cell by cell
        let partial = q.contains(" LIMIT ") && !q.contains("ORDER BY");
        if partial {
            if let Some(kc) = j.columns.iter().position(|c| c == "event_id") {
                let idx = |rows: &Vec<Vec<Value>>| -> std::collections::BTreeMap<u64, Vec<Value>> { rows.iter().filter_map(|r| r[kc].as_u64().or(r[kc].as_i64().map(|v| v as u64)).map(|id| (id, r.clone()))).collect() };
                let (mj, mu, ma) = (idx(&j.rows), idx(&u.rows), idx(&a.rows));
                for (id, rj) in &mj {
                    if let Some(ru) = mu.get(id) {
                        if canon(&vec![rj.clone()]) != canon(&vec![ru.clone()]) {
                            return Verdict::fail("cells-differ:json-vs-text", json!({"cmd": q, "json": rj, "unix": ru, "log": w.db.log}));
                        }
                    }
                    if let Some(ra) = ma.get(id) {
                        for (ci, (cj, ca)) in rj.iter().zip(ra.iter()).enumerate() {
                            if !cells_equal(cj, ca) && !known_arrow_divergence(cj, ca) {
                                return Verdict::fail("cells-differ:json-vs-arrow", json!({"cmd": q, "column": j.columns[ci], "json_cell": cj, "arrow_cell": ca, "json_row": rj, "arrow_row": ra, "log": w.db.log}));
                            }
                        }
                    }
                }
                if !j.rows.is_empty() {
                    rep.nontrivial = true;
                }
                rep.label("result:selection-with-limit");
                continue;
            }
        }
        if canon(&j.rows) != canon(&u.rows) {
            return Verdict::fail("cells-differ:json-vs-text", json!({"cmd": q, "json": j.rows, "unix": u.rows, "log": w.db.log}));
        }
        // align arrow rows with json rows: by event_id when present. A table without event ids (aggregates) has no specified
        // row order and the three answers come from three executions, so its rows are matched as multisets: every JSON row
        // needs its own Arrow row with equal cells (a sort on the cell text would not do: an Arrow timestamp cell and the
        // JSON number print differently and sort differently - correction 22 in DESIGN.md)
        let key_col = j.columns.iter().position(|c| c == "event_id");
        if let Some(kc) = key_col {
            let mut jr = j.rows.clone();
            let mut ar = a.rows.clone();
            jr.sort_by_key(|r| r[kc].as_u64().unwrap_or(0));
            ar.sort_by_key(|r| r[kc].as_u64().or(r[kc].as_i64().map(|v| v as u64)).unwrap_or(0));
            for (rj, ra) in jr.iter().zip(ar.iter()) {
                for (ci, (cj, ca)) in rj.iter().zip(ra.iter()).enumerate() {
                    if !cells_equal(cj, ca) && !known_arrow_divergence(cj, ca) {
                        return Verdict::fail("cells-differ:json-vs-arrow", json!({"cmd": q, "column": j.columns[ci], "json_cell": cj, "arrow_cell": ca, "json_row": rj, "arrow_row": ra, "log": w.db.log}));
                    }
                }
            }
        } else {
            let mut used = vec![false; a.rows.len()];
            for rj in &j.rows {
                let hit = a.rows.iter().enumerate().position(|(i, ra)| !used[i] && ra.len() == rj.len() && rj.iter().zip(ra.iter()).all(|(cj, ca)| cells_equal(cj, ca) || known_arrow_divergence(cj, ca)));
                match hit {
                    Some(i) => used[i] = true,
                    None => {
                        return Verdict::fail("cells-differ:json-vs-arrow", json!({"cmd": q, "json_row_without_equal_arrow_row": rj, "json_rows": j.rows, "arrow_rows": a.rows, "log": w.db.log}));
                    }
                }
            }
        }
        if !j.rows.is_empty() {
            rep.nontrivial = true;
        }
        rep.label(if j.columns.iter().any(|c| c == "event_id") { "result:selection" } else { "result:table" });
        if j.rows.is_empty() {
            rep.label("result:empty");
        }
    }
    rep.sample = Some(json!({"events": w.model.events.len(), "queries": c.queries}));
    if !w.db.panics.is_empty() {
        return Verdict::fail("panic-in-worker", json!({"panics": w.db.panics, "log": w.db.log}));
    }
    Verdict::Pass
}

pub fn replay(_check: &str, case: &Value) -> Verdict {
    match serde_json::from_value::<Case>(case.clone()) {
        Ok(c) => run_case(&c, &mut CaseReport::default()),
        Err(e) => Verdict::Discard(format!("bad case: {}", e)),
    }
}

pub fn run(ctx: &Ctx) -> i32 {
    let stats = Mutex::new(Stats::default());
    let mut report = Report::new(
        "C20",
        "exploration",
        "generated states (every field type, integers at the 64-bit limits and around 2^53, u64 above i64::MAX, integral / extreme / negative-zero floats, empty, non-ASCII and typed-looking strings, nulls in optional fields, in memory and on disk) and a generated list of requests (selections with RETURN / WHERE / LIMIT / FOR, REPLAY, aggregate tables, empty results, error answers, unknown commands); each request is dispatched with the JSON, the text and the Arrow renderer on the same quiescent state; the three byte streams are decoded independently (own JSON reader with exact floats; arrow_ipc::StreamReader) and compared: status code, column names, number of rows, every cell (numbers numerically, nulls as nulls, strings byte-identical, Arrow millisecond timestamps = seconds x 1000), announced row_count = rows emitted. Non-trivial: a streamed result with at least one row.",
    );
    report.assumptions = vec!["row order may differ between two dispatches: rows are aligned by event_id (or first column)".into()];
    replay_known(ctx, &stats, &mut report, &replay);
    replay_regressions(ctx, &stats, &mut report, &replay);
    ARROW_TYPED_STRING_OPEN.store(ctx.open("enc.typed_looking_string"), std::sync::atomic::Ordering::Relaxed);
    ARROW_BIG_U64_OPEN.store(ctx.open("enc.u64_above_i64_max"), std::sync::atomic::Ordering::Relaxed);
    crate::props::c02::KNOWN_ID_REUSE.store(ctx.open_any("layout.stale_cache_after_id_reuse"), std::sync::atomic::Ordering::Relaxed);
    let ex = Excl { typed_strings: ctx.open("enc.typed_looking_string"), big_u64: ctx.open("enc.u64_above_i64_max"), null_string: false, min_max: ctx.open("enc.min_max_metric"), replay: ctx.open("enc.replay_unknown_typed_columns") };
    let _ = ex.null_string;
    let cases = ctx.tier.pick(96, 1500);
    let tier = ctx.tier;
    if let Some(f) = explore(ctx, "encodings", || case_strategy(tier, ex), Explore { cases, max_shrink_iters: ctx.tier.pick(150, 500), lanes: ctx.lanes }, &stats, run_case) {
        report.violations.push(f);
    }
    finish(ctx, stats.into_inner().unwrap(), report)
}
