//! C04 - REPLAY returns a context's events in the order they were appended.

use crate::db::DbConfig;
use crate::fw::*;
use crate::hist::*;
use crate::props::c01::{simple_ev, simple_types};
use crate::props::c02::problem_verdict;
use proptest::prelude::*;
use serde::{Deserialize, Serialize};
use serde_json::{Value, json};
use std::sync::Mutex;

#[derive(Clone, Debug, Serialize, Deserialize)]
pub struct Case {
    pub cfg: DbConfig,
    pub types: Vec<TypeDef>,
    pub n_ctx: usize,
    pub ops: Vec<Op>,
    /// REPLAY variants checked at every Check op and at the end
    pub typed: bool,
    pub untyped: bool,
    pub since_off: Option<u32>,
    /// REPLAY ta FOR ctx SINCE <t> USING at: narrowing by the payload time field `at` of type ta (bound = AT_BASE + n * 1800)
    #[serde(default)]
    pub since_using: Option<u32>,
}

const AT_BASE: i64 = 1_700_000_000;

/// the shared simple types, with a payload time field on the first one (its values are unrelated to the store clock)
fn c04_types() -> Vec<TypeDef> {
    let mut t = simple_types();
    t[0].fields.push(FieldDef { name: "at".into(), ty: FT::Datetime, opt: false, alias: "datetime".into() });
    t
}

fn c04_ev(n_types: usize, n_ctx: usize) -> BoxedStrategy<Ev> {
    (simple_ev(n_types, n_ctx), 0i64..6)
        .prop_map(|(mut e, a)| {
            if e.ty == 0 {
                e.vals.push(json!(AT_BASE + a * 1800));
            }
            e
        })
        .boxed()
}

#[derive(Clone, Copy)]
struct Excl {
    untyped: bool,
    mixed_tiers: bool,
    compaction: bool,
    multi_segment: bool,
}

fn case_strategy(tier: Tier, ex: Excl) -> BoxedStrategy<Case> {
    (1usize..=2, 1usize..=3, 1usize..=3, 2usize..=4, 1usize..=2, 2usize..=4, prop::option::weighted(0.3, 0u32..4), prop::option::weighted(0.4, 0u32..7))
        .prop_flat_map(move |(shards, epz, ff, spm, n_types, n_ctx, since_off, since_using)| {
            let cfg = DbConfig { shard_count: shards, event_per_zone: epz, fill_factor: ff, segments_per_merge: spm, ..DbConfig::default() };
            let ev = c04_ev(n_types, n_ctx);
            let op = prop_oneof![
                30 => ev.prop_map(Op::Store),
                3 => (0u32..4).prop_map(Op::Clock),
                3 => Just(Op::Flush),
                2 => Just(Op::Barrier),
                3 => (1u8..=2).prop_map(move |n| if ex.compaction { Op::Barrier } else { Op::Compact(n) }),
                1 => Just(Op::Restart),
                4 => Just(Op::Check),
            ];
            (Just(cfg), Just(n_types), Just(n_ctx), prop::collection::vec(op, 6..=tier.pick(40, 70)), Just(since_off), Just(since_using))
        })
        .prop_map(move |(cfg, n_types, n_ctx, ops, since_off, since_using)| Case { cfg, types: c04_types()[..n_types].to_vec(), n_ctx, ops, typed: true, untyped: !ex.untyped || n_types == 1, since_off, since_using })
        .boxed()
}

fn check_point(w: &mut World, c: &Case, rep: &mut CaseReport, ex: Excl, what: &str) -> Result<Option<(String, Value)>, Problem> {
    w.db.barrier()?;
    let base = w.base_secs;
    let mem = w.mem_count.iter().any(|m| *m > 0);
    let mut n_segments = 0;
    let mut compacted = false;
    for s in 0..c.cfg.shard_count {
        let l = w.db.live(s)?;
        n_segments += l.len();
        if l.iter().any(|x| x.parse::<u32>().map(|n| n >= 10_000).unwrap_or(false)) {
            compacted = true;
        }
    }
    if ex.mixed_tiers && mem && n_segments > 0 {
        rep.excluded_known += 1;
        return Ok(None);
    }
    if ex.multi_segment && n_segments > 1 {
        rep.excluded_known += 1;
        return Ok(None);
    }
    for cx in 0..c.n_ctx {
        let name = ctx_name(cx);
        let mut variants: Vec<(String, Option<usize>, Option<u64>)> = vec![];
        // SINCE .. USING <payload time field>: judged on the payload value, not on the store time
        let at_idx = c.types[0].fields.iter().position(|f| f.name == "at");
        let mut using_bound: Option<i64> = None;
        if c.untyped {
            variants.push((format!("REPLAY FOR {} RETURN [k]", name), None, None));
        }
        if c.typed {
            for (ti, t) in c.types.iter().enumerate() {
                variants.push((format!("REPLAY {} FOR {}", t.name, name), Some(ti), None));
            }
        }
        if let Some(off) = c.since_off {
            let ts = chrono::DateTime::from_timestamp((base + off as u64) as i64, 0).unwrap().to_rfc3339_opts(chrono::SecondsFormat::Secs, true);
            variants.push((format!("REPLAY {} FOR {} SINCE \"{}\" RETURN [k]", c.types[0].name, name, ts), Some(0), Some(base + off as u64)));
        }
        if let (Some(n), Some(_)) = (c.since_using, at_idx) {
            let bound = AT_BASE + n as i64 * 1800;
            let ts = chrono::DateTime::from_timestamp(bound, 0).unwrap().to_rfc3339_opts(chrono::SecondsFormat::Secs, true);
            variants.push((format!("REPLAY {} FOR {} SINCE \"{}\" USING at RETURN [k]", c.types[0].name, name, ts), Some(0), None));
            using_bound = Some(bound);
        }
        let n_variants = variants.len();
        for (vi, (q, ty, since)) in variants.into_iter().enumerate() {
            let by_payload_time = using_bound.filter(|_| vi + 1 == n_variants);
            if by_payload_time.is_some() {
                rep.label("replay:since-using-payload-time");
            }
            let want: Vec<i64> = w
                .model
                .events
                .iter()
                .filter(|e| e.ctx == name && ty.map(|t| e.ty == t).unwrap_or(true) && since.map(|s| e.secs.unwrap_or(0) >= s).unwrap_or(true))
                .filter(|e| match (by_payload_time, at_idx) {
                    (Some(b), Some(ai)) => e.vals.get(ai).and_then(|v| v.as_i64()).map(|a| a >= b).unwrap_or(false),
                    _ => true,
                })
                .map(|e| e.k)
                .collect();
            for attempt in 0..2 {
                let r = w.db.cmd(&q)?;
                rep.sub_evals += 1;
                if !r.panics.is_empty() {
                    return Ok(Some(("panic".into(), json!({"at": what, "cmd": q, "panics": r.panics, "log": w.db.log}))));
                }
                if r.is_error() && !want.is_empty() {
                    return Ok(Some(("error-response".into(), json!({"at": what, "cmd": q, "status": r.status, "message": r.message, "log": w.db.log}))));
                }
                let got = ks_of(&r);
                if got != want {
                    let mut gs = got.clone();
                    gs.sort();
                    let mut ws = want.clone();
                    ws.sort();
                    let sig = if gs == ws { "order" } else { "membership" };
                    return Ok(Some((sig.into(), json!({"at": what, "cmd": q, "attempt": attempt, "got": got, "want": want, "in_memory": mem, "segments": n_segments, "compacted": compacted, "log": w.db.log}))));
                }
            }
            // non-trivial: the context spans >= 2 tiers
            let tiers = (mem as usize) + n_segments;
            if want.len() >= 2 && tiers >= 2 {
                rep.nontrivial = true;
            }
        }
    }
    if mem && n_segments > 0 {
        rep.label("tiers:memory+segments");
    }
    if n_segments > 1 {
        rep.label("tiers:multi-segment");
    }
    if compacted {
        rep.label("tiers:compacted");
    }
    Ok(None)
}

static EXCL: Mutex<Option<Excl>> = Mutex::new(None);

fn run_case(c: &Case, rep: &mut CaseReport) -> Verdict {
    let ex = EXCL.lock().unwrap().unwrap_or(Excl { untyped: false, mixed_tiers: false, compaction: false, multi_segment: false });
    let mut w = match World::start("c04", &c.cfg, &c.types, true) {
        Ok(w) => w,
        Err(e) => {
            rep.inconclusive = Some(format!("start: {:?}", e));
            return Verdict::Discard("start failed".into());
        }
    };
    let mut ops = c.ops.clone();
    ops.push(Op::Check);
    for (oi, op) in ops.iter().enumerate() {
        if let Err(e) = w.apply(op) {
            return problem_verdict(e, &mut w, rep);
        }
        if matches!(op, Op::Check) {
            if w.id_reused && crate::props::c02::KNOWN_ID_REUSE.load(std::sync::atomic::Ordering::Relaxed) {
                rep.excluded_known += 1;
                return Verdict::Discard("known: retired segment id re-created in the same process lifetime".into());
            }
            match check_point(&mut w, c, rep, ex, &format!("check@{}", oi)) {
                Ok(Some((s, d))) => return Verdict::fail(s, d),
                Ok(None) => {}
                Err(e) => return problem_verdict(e, &mut w, rep),
            }
        }
    }
    rep.sample = Some(json!({"config": {"shards": c.cfg.shard_count, "capacity": c.cfg.capacity(), "segments_per_merge": c.cfg.segments_per_merge}, "events": w.model.events.len(), "contexts": c.n_ctx, "types": c.types.len(),
        "ops": ops.iter().map(|o| match o { Op::Store(e) => format!("S{}c{}", e.ty, e.ctx), Op::Flush => "F".into(), Op::Compact(_) => "C".into(), Op::Restart => "R".into(), Op::Check => "?".into(), _ => "b".into() }).collect::<Vec<_>>().join(" ")}));
    if !w.db.panics.is_empty() {
        return Verdict::fail("panic-in-worker", json!({"panics": w.db.panics, "log": w.db.log}));
    }
    Verdict::Pass
}

pub fn replay(_check: &str, case: &Value) -> Verdict {
    match serde_json::from_value::<Case>(case.clone()) {
        Ok(c) => {
            // replays run without exclusions
            let saved = EXCL.lock().unwrap().take();
            let v = run_case(&c, &mut CaseReport::default());
            *EXCL.lock().unwrap() = saved;
            v
        }
        Err(e) => Verdict::Discard(format!("bad case: {}", e)),
    }
}

pub fn run(ctx: &Ctx) -> i32 {
    let stats = Mutex::new(Stats::default());
    let mut report = Report::new(
        "C04",
        "exploration",
        "generated (config, 1-2 types, 2-4 contexts, 6-70 ops of STORE / clock / FLUSH / barrier / compaction / restart / check); at every check point (quiescent) REPLAY FOR ctx, REPLAY <type> FOR ctx, REPLAY ... SINCE and REPLAY ... SINCE .. USING <payload time field> are issued twice for every context and the sequence of k must equal the model's apply order of that context (membership exact, order exact). Non-trivial: a context with >= 2 events spread over >= 2 tiers (memory + segment, or several segments).",
    );
    report.assumptions = vec!["the scheduling of the concurrent in-memory and on-disk streams is sampled by repetition, not enumerated".into()];
    replay_known(ctx, &stats, &mut report, &replay);
    replay_regressions(ctx, &stats, &mut report, &replay);
    let ex = Excl {
        untyped: ctx.open("replay.untyped"),
        mixed_tiers: ctx.open("replay.memory_and_segments"),
        compaction: ctx.open("replay.after_compaction"),
        multi_segment: ctx.open("replay.multi_segment"),
    };
    *EXCL.lock().unwrap() = Some(ex);
    crate::props::c02::KNOWN_ID_REUSE.store(ctx.open_any("layout.stale_cache_after_id_reuse"), std::sync::atomic::Ordering::Relaxed);
    let cases = ctx.tier.pick(240, 1500);
    let tier = ctx.tier;
    if let Some(f) = explore(ctx, "replay-order", || case_strategy(tier, ex), Explore { cases, max_shrink_iters: ctx.tier.pick(100, 400), lanes: ctx.lanes }, &stats, run_case) {
        report.violations.push(f);
    }
    finish(ctx, stats.into_inner().unwrap(), report)
}
