//! C18 - event ids are unique and increase in append order within a shard.

use crate::db::{CaseDir, Db, DbConfig};
use crate::fw::*;
use crate::hist::*;
use crate::props::c02::problem_verdict;
use proptest::prelude::*;
use serde::{Deserialize, Serialize};
use serde_json::{Value, json};
use std::collections::{BTreeMap, BTreeSet};
use std::sync::Mutex;

// ------------------------------------------------------------------ component: the generator

#[derive(Clone, Debug, Serialize, Deserialize)]
pub struct Lifetime {
    /// clock readings in ms relative to the lifetime's base (the last one repeats, +1 per read)
    pub script: Vec<i64>,
    pub n: u32,
    /// base of this lifetime = last clock reading of the previous lifetime + jump
    #[serde(default)]
    pub jump: i64,
    /// keep this lifetime's base above every millisecond an earlier lifetime used (open finding class)
    #[serde(default)]
    pub ahead: bool,
}

#[derive(Clone, Debug, Serialize, Deserialize)]
pub struct GenCase {
    pub shard: u16,
    pub lifetimes: Vec<Lifetime>,
}

const BASE_MS: i64 = 1_700_000_000_000;

fn gen_case_strategy(tier: Tier, backward_restart: bool) -> BoxedStrategy<GenCase> {
    let step = prop_oneof![
        5 => Just(0i64),
        3 => 1i64..5,
        1 => 100i64..100_000,
        2 => -5i64..0,
        1 => -3_600_000i64..-1000,
    ];
    let lifetime = (prop::collection::vec(step, 1..40), prop_oneof![3 => 1u32..200, 1 => 4090u32..4200, if tier == Tier::Quick { 1 } else { 2 } => 8000u32..9000])
        .prop_map(|(steps, n)| {
            let mut t = 0i64;
            let script = steps
                .into_iter()
                .map(|s| {
                    t += s;
                    t
                })
                .collect();
            Lifetime { script, n, jump: 0, ahead: false }
        });
    (0u16..1024, prop::collection::vec((lifetime, prop_oneof![3 => 0i64..10_000, 2 => Just(0i64), 2 => -3_600_000i64..0]), 1..=3))
        .prop_map(move |(shard, lts)| {
            let mut out = vec![];
            for (i, (mut lt, jump)) in lts.into_iter().enumerate() {
                // the first lifetime starts at the base; later ones continue from, repeat (0) or precede (< 0)
                // the last clock reading of the previous lifetime
                lt.jump = if i == 0 { 0 } else if backward_restart { jump.max(0) + 1 } else { jump };
                lt.ahead = backward_restart;
                if backward_restart && i > 0 {
                    // ... and never steps back below its own base
                    let mut lowest = 0i64;
                    for v in lt.script.iter_mut() {
                        lowest = lowest.min(*v);
                    }
                    if lowest < 0 {
                        for v in lt.script.iter_mut() {
                            *v -= lowest;
                        }
                    }
                }
                out.push(lt);
            }
            GenCase { shard, lifetimes: out }
        })
        .boxed()
}

fn run_gen_case(c: &GenCase, rep: &mut CaseReport) -> Verdict {
    let case = CaseDir::new("c18g");
    let mut db = match Db::open(&case.path, &DbConfig::default()) {
        Ok(d) => d,
        Err(e) => {
            rep.inconclusive = Some(format!("start: {:?}", e));
            return Verdict::Discard("start failed".into());
        }
    };
    let lts: Vec<Value> = c.lifetimes.iter().map(|l| json!({"script": l.script, "n": l.n, "shard": c.shard, "jump": l.jump, "ahead_of_previous": l.ahead})).collect();
    let v = match db.req(json!({"op":"internal","what":"idgen","base": BASE_MS, "lifetimes": lts})) {
        Ok(v) => v,
        Err(crate::db::DbError::Timeout) => {
            rep.inconclusive = Some("watchdog in id generator".into());
            return Verdict::Discard("watchdog".into());
        }
        Err(e) => return Verdict::fail("worker-died", json!({"error": e.to_string()})),
    };
    let mut all: Vec<u64> = vec![];
    let mut prev_max: Option<u64> = None;
    for (li, l) in v["lifetimes"].as_array().cloned().unwrap_or_default().iter().enumerate() {
        let ids: Vec<u64> = l.as_array().map(|a| a.iter().filter_map(|x| x.as_u64()).collect()).unwrap_or_default();
        rep.sub_evals += ids.len() as u64;
        for w in ids.windows(2) {
            if w[1] <= w[0] {
                return Verdict::fail("not-increasing-within-lifetime", json!({"lifetime": li, "pair": w, "script": c.lifetimes[li].script, "n": c.lifetimes[li].n}));
            }
        }
        for id in &ids {
            if ((id >> 12) & 0x3ff) as u16 != c.shard {
                return Verdict::fail("shard-bits-wrong", json!({"id": id, "shard": c.shard}));
            }
        }
        if let (Some(pm), Some(first)) = (prev_max, ids.first()) {
            if *first <= pm {
                return Verdict::fail("not-increasing-across-restart", json!({"lifetime": li, "previous_max": pm, "first": first, "lifetimes": c.lifetimes.iter().map(|l| json!({"first": l.script.first(), "last": l.script.last(), "n": l.n, "jump": l.jump})).collect::<Vec<_>>(), "bases": v["bases"]}));
            }
        }
        if let Some(m) = ids.iter().max() {
            prev_max = Some(prev_max.map(|p| p.max(*m)).unwrap_or(*m));
        }
        all.extend(ids);
    }
    let set: BTreeSet<u64> = all.iter().cloned().collect();
    if set.len() != all.len() {
        return Verdict::fail("duplicate-id", json!({"ids": all.len(), "distinct": set.len()}));
    }
    if c.lifetimes.iter().any(|l| l.n > 4096) {
        rep.label("burst>4096");
    }
    if c.lifetimes.iter().any(|l| l.script.windows(2).any(|w| w[1] < w[0])) {
        rep.label("clock:backward-step");
        rep.nontrivial = true;
    }
    if c.lifetimes.len() > 1 {
        rep.label("restart");
        rep.nontrivial = true;
    }
    rep.sample = Some(json!({"shard": c.shard, "lifetimes": c.lifetimes.iter().map(|l| json!({"reads": l.script.len(), "n": l.n, "first_ms": l.script.first(), "last_ms": l.script.last()})).collect::<Vec<_>>(), "ids": all.len()}));
    Verdict::Pass
}

// ------------------------------------------------------------------ end to end

#[derive(Clone, Debug, Serialize, Deserialize)]
pub enum IOp {
    Store(Ev),
    /// move the millisecond clock by this many ms (may be negative)
    ClockMs(i64),
    Flush,
    Compact,
    Restart,
    Kill,
    Check,
}

#[derive(Clone, Debug, Serialize, Deserialize)]
pub struct E2eCase {
    pub cfg: DbConfig,
    pub n_ctx: usize,
    pub ops: Vec<IOp>,
}

fn e2e_strategy(tier: Tier, backward_restart: bool, crash_ok: bool) -> BoxedStrategy<E2eCase> {
    (1usize..=3, 1usize..=3, 1usize..=2, 2usize..=4)
        .prop_flat_map(move |(shards, epz, ff, n_ctx)| {
            let cfg = DbConfig { shard_count: shards, event_per_zone: epz, fill_factor: ff, ..DbConfig::default() };
            let ev = crate::props::c01::simple_ev(1, n_ctx);
            let op = prop_oneof![
                30 => ev.prop_map(IOp::Store),
                6 => prop_oneof![3 => 0i64..3, 2 => 3i64..2000, 2 => -50i64..0, 1 => -3_600_000i64..-1000].prop_map(IOp::ClockMs),
                2 => Just(IOp::Flush),
                1 => Just(IOp::Compact),
                1 => Just(IOp::Restart),
                2 => Just(IOp::Kill),
                3 => Just(IOp::Check),
            ];
            (Just(cfg), Just(n_ctx), prop::collection::vec(op, 8..=tier.pick(50, 90)))
        })
        .prop_map(move |(cfg, n_ctx, mut ops)| {
            if backward_restart {
                // open finding: the clock must not have gone backwards when a new lifetime starts
                let mut net: i64 = 0;
                let mut high: i64 = 0;
                for op in ops.iter_mut() {
                    match op {
                        IOp::ClockMs(d) => {
                            net += *d;
                            high = high.max(net);
                        }
                        IOp::Restart | IOp::Kill => {
                            if net < high + 1 {
                                // replaced by a forward step before the restart
                            }
                        }
                        _ => {}
                    }
                }
            }
            // SIGKILL + WAL recovery: every id is read right before the kill (so that a changed id is seen). While C01's
            // findings about manual FLUSH / clean restart / compaction / a second crash are open, only the first kill of a
            // history is kept, and only if none of those operations precedes it (events may be lost there, which is C01's).
            let mut out = Vec::with_capacity(ops.len() + 4);
            let mut tainted = false;
            for op in ops {
                match op {
                    IOp::Kill => {
                        if crash_ok || !tainted {
                            out.push(IOp::Check);
                            out.push(IOp::Kill);
                        } else {
                            out.push(IOp::Check);
                        }
                        tainted = true;
                    }
                    IOp::Flush | IOp::Restart | IOp::Compact => {
                        tainted = true;
                        out.push(op);
                    }
                    o => out.push(o),
                }
            }
            E2eCase { cfg, n_ctx, ops: out }
        })
        .boxed()
}

pub static BACKWARD_RESTART_EXCLUDED: std::sync::atomic::AtomicBool = std::sync::atomic::AtomicBool::new(false);

fn run_e2e(c: &E2eCase, rep: &mut CaseReport) -> Verdict {
    let types = crate::props::c01::simple_types()[..1].to_vec();
    let mut w = match World::start("c18", &c.cfg, &types, false) {
        Ok(w) => w,
        Err(e) => {
            rep.inconclusive = Some(format!("start: {:?}", e));
            return Verdict::Discard("start failed".into());
        }
    };
    let mut now_ms: i64 = BASE_MS;
    let mut high_ms: i64 = BASE_MS;
    let mut prev_lifetimes_high: i64 = i64::MIN;
    if let Err(e) = w.db.req(json!({"op":"clock_ms","v":now_ms})) {
        return problem_verdict(Problem::Db(e), &mut w, rep);
    }
    let mut first_id: BTreeMap<i64, u64> = BTreeMap::new();
    let mut ops = c.ops.clone();
    ops.push(IOp::Check);
    let mut restarts = 0;
    let mut stores_in_ms = 0u32;
    for (oi, op) in ops.iter().enumerate() {
        let r: Result<(), Problem> = (|| {
            match op {
                IOp::Store(ev) => {
                    stores_in_ms += 1;
                    if stores_in_ms >= 4000 {
                        now_ms += 1;
                        high_ms = high_ms.max(now_ms);
                        stores_in_ms = 0;
                        w.db.req(json!({"op":"clock_ms","v":now_ms}))?;
                    }
                    w.store(ev)?;
                }
                IOp::ClockMs(d) => {
                    now_ms = (now_ms + d).max(1_650_000_000_000);
                    if BACKWARD_RESTART_EXCLUDED.load(std::sync::atomic::Ordering::Relaxed) && now_ms <= prev_lifetimes_high {
                        // open class: the clock of a lifetime never reads at or below a millisecond that an
                        // earlier lifetime has used
                        now_ms = prev_lifetimes_high + 1;
                    }
                    high_ms = high_ms.max(now_ms);
                    stores_in_ms = 0;
                    w.db.req(json!({"op":"clock_ms","v":now_ms}))?;
                }
                IOp::Flush => w.apply(&Op::Flush)?,
                IOp::Compact => w.apply(&Op::Compact(1))?,
                IOp::Restart | IOp::Kill => {
                    if BACKWARD_RESTART_EXCLUDED.load(std::sync::atomic::Ordering::Relaxed) && now_ms <= high_ms {
                        // keep exploration outside the open class: a new lifetime never starts on a
                        // clock that is behind (or equal to) one the previous lifetime has used
                        now_ms = high_ms + 1;
                        high_ms = now_ms;
                    }
                    prev_lifetimes_high = high_ms - if BACKWARD_RESTART_EXCLUDED.load(std::sync::atomic::Ordering::Relaxed) { 1 } else { 0 };
                    if matches!(op, IOp::Restart) {
                        w.db.barrier()?;
                        let v = w.db.shutdown()?;
                        if v["ok"].as_bool() != Some(true) {
                            return Err(Problem::Unexpected(format!("shutdown errors {}", v)));
                        }
                    } else {
                        w.db.barrier()?;
                        w.db.kill();
                    }
                    let panics = std::mem::take(&mut w.db.panics);
                    let log = std::mem::take(&mut w.db.log);
                    w.db = Db::open_env(&w.case.path, &w.cfg, &[("VCHECK_CLOCK_MS", now_ms.to_string())])?;
                    w.db.panics = panics;
                    w.db.log = log;
                    w.db.log.push(format!("!reopened clock_ms={}", now_ms));
                    restarts += 1;
                    stores_in_ms = 0;
                }
                IOp::Check => {}
            }
            Ok(())
        })();
        if let Err(e) = r {
            return problem_verdict(e, &mut w, rep);
        }
        if matches!(op, IOp::Check | IOp::Restart | IOp::Kill) {
            if let Err(e) = w.db.barrier() {
                return problem_verdict(Problem::Db(e), &mut w, rep);
            }
            let r = match w.db.cmd("QUERY ta") {
                Ok(r) => r,
                Err(e) => return problem_verdict(Problem::Db(e), &mut w, rep),
            };
            rep.sub_evals += 1;
            let Some(ei) = r.col("event_id") else {
                if w.model.events.is_empty() {
                    continue;
                }
                return Verdict::fail("no-event-id-column", json!({"columns": r.columns, "status": r.status, "log": w.db.log}));
            };
            let mut seen_ids: BTreeMap<u64, i64> = BTreeMap::new();
            let mut ids_now: BTreeMap<i64, u64> = BTreeMap::new();
            for row in &r.rows {
                let (Some(k), Some(id)) = (row_k(row), row.get(ei).and_then(|v| v.as_u64())) else {
                    return Verdict::fail("row-without-id", json!({"row": row, "log": w.db.log}));
                };
                if let Some(other) = seen_ids.insert(id, k) {
                    if other != k {
                        return Verdict::fail("two-events-share-an-id", json!({"id": id, "events": [other, k], "at_op": oi, "log": w.db.log}));
                    }
                }
                ids_now.insert(k, id);
                match first_id.get(&k) {
                    None => {
                        first_id.insert(k, id);
                    }
                    Some(f) if *f != id => {
                        return Verdict::fail("id-changed-across-tiers-or-recovery", json!({"k": k, "first": f, "now": id, "at_op": oi, "log": w.db.log}));
                    }
                    _ => {}
                }
            }
            let want: BTreeSet<i64> = w.model.events.iter().map(|e| e.k).collect();
            let got: BTreeSet<i64> = ids_now.keys().cloned().collect();
            if got != want {
                return Verdict::fail("event-dropped-or-merged", json!({"missing": want.difference(&got).collect::<Vec<_>>(), "extra": got.difference(&want).collect::<Vec<_>>(), "at_op": oi, "log": w.db.log}));
            }
            // per shard strictly increasing in apply order
            for shard in 0..c.cfg.shard_count {
                let seq: Vec<(i64, u64)> = w.model.events.iter().filter(|e| e.shard == shard).map(|e| (e.k, ids_now[&e.k])).collect();
                for p in seq.windows(2) {
                    if p[1].1 <= p[0].1 {
                        return Verdict::fail("ids-not-increasing-in-apply-order", json!({"shard": shard, "earlier": p[0], "later": p[1], "restarts": restarts, "at_op": oi, "log": w.db.log}));
                    }
                }
                for (_, id) in &seq {
                    if ((id >> 12) & 0x3ff) as usize != shard {
                        return Verdict::fail("shard-bits-wrong", json!({"id": id, "shard": shard, "log": w.db.log}));
                    }
                }
            }
        }
    }
    if restarts > 0 && w.model.events.len() > 3 {
        rep.nontrivial = true;
    }
    rep.sample = Some(json!({"shards": c.cfg.shard_count, "capacity": c.cfg.capacity(), "events": w.model.events.len(), "restarts": restarts,
        "ops": ops.iter().map(|o| match o { IOp::Store(_) => "S".to_string(), IOp::ClockMs(d) => format!("t{:+}", d), IOp::Flush => "F".into(), IOp::Compact => "C".into(), IOp::Restart => "R".into(), IOp::Kill => "K".into(), IOp::Check => "?".into() }).collect::<Vec<_>>().join(" ")}));
    Verdict::Pass
}

pub fn replay(check: &str, case: &Value) -> Verdict {
    if check == "generator" {
        match serde_json::from_value::<GenCase>(case.clone()) {
            Ok(c) => run_gen_case(&c, &mut CaseReport::default()),
            Err(e) => Verdict::Discard(format!("bad case: {}", e)),
        }
    } else {
        match serde_json::from_value::<E2eCase>(case.clone()) {
            Ok(c) => {
                let saved = BACKWARD_RESTART_EXCLUDED.swap(false, std::sync::atomic::Ordering::Relaxed);
                let v = run_e2e(&c, &mut CaseReport::default());
                BACKWARD_RESTART_EXCLUDED.store(saved, std::sync::atomic::Ordering::Relaxed);
                v
            }
            Err(e) => Verdict::Discard(format!("bad case: {}", e)),
        }
    }
}

pub fn run(ctx: &Ctx) -> i32 {
    let stats = Mutex::new(Stats::default());
    let mut report = Report::new(
        "C18",
        "exploration",
        "(a) component: the id generator under a scripted millisecond clock (hook): monotone, repeated and backward-stepping readings, bursts of more than 4096 calls within one millisecond, 1-3 generator lifetimes whose clocks continue from, repeat or precede the previous lifetime, shard ids 0..1023; ids must be pairwise distinct, strictly increasing in call order within and across lifetimes, and carry the shard bits. (b) end to end: histories of STORE / clock steps (incl. backward) / FLUSH / compaction / clean restart / SIGKILL; at every check point the event_id of every event is read: distinct, strictly increasing in apply order per shard, identical at every tier and after WAL recovery, no event dropped or merged. Non-trivial: a backward clock step or more than one lifetime.",
    );
    report.assumptions = vec!["the wall clock is replaced by the hook clock for the id generator only".into()];
    replay_known(ctx, &stats, &mut report, &replay);
    replay_regressions(ctx, &stats, &mut report, &replay);
    let excl = ctx.open("ids.backward_clock_across_restart");
    BACKWARD_RESTART_EXCLUDED.store(excl, std::sync::atomic::Ordering::Relaxed);
    let tier = ctx.tier;
    if let Some(f) = explore(ctx, "generator", || gen_case_strategy(tier, excl), Explore { cases: ctx.tier.pick(200, 3000), max_shrink_iters: ctx.tier.pick(200, 600), lanes: ctx.lanes }, &stats, run_gen_case) {
        report.violations.push(f);
    }
    let crash_ok = !ctx.open_any("crash.after_manual_flush_or_clean_restart");
    if let Some(f) = explore(ctx, "end-to-end", || e2e_strategy(tier, excl, crash_ok), Explore { cases: ctx.tier.pick(64, 1000), max_shrink_iters: ctx.tier.pick(100, 400), lanes: ctx.lanes }, &stats, run_e2e) {
        report.violations.push(f);
    }
    finish(ctx, stats.into_inner().unwrap(), report)
}
