//! C11 - published segments are immutable and appear / disappear as a whole.
//! A monitor takes a snapshot after every command (and after every restart) of: the decoded
//! segments.idx, the in-memory live segment list, and (len, sha256) of every file in every
//! numeric segment directory; invariants are checked over the snapshot sequence.

use crate::db::Db;
use crate::fw::*;
use crate::props::c01::{self, Case};
use serde_json::{Value, json};
use sha2::{Digest, Sha256};
use std::collections::{BTreeMap, BTreeSet};
use std::path::{Path, PathBuf};
use std::sync::Mutex;

type FileSet = BTreeMap<String, (u64, String)>;

pub struct Monitor {
    root: PathBuf,
    shards: usize,
    /// per shard: visible segment label -> file set at first visibility
    first: Vec<BTreeMap<String, FileSet>>,
    /// identity (inode, birth time) of the directory at first visibility
    ident: Vec<BTreeMap<String, (u64, u128)>>,
    pub tolerate_empty_orphan: bool,
    pub tolerated: u64,
    /// labels that were visible once and have disappeared
    gone: Vec<BTreeSet<String>>,
    pub snapshots: usize,
    pub segments_seen: usize,
    pub id_reuse_seen: bool,
    pub tolerate_id_reuse: bool,
}

/// own decoder of segments.idx: 20-byte header (magic, version, flags, reserved, crc32) +
/// bincode Vec<{id: u32, uids: Vec<String>}>
pub fn decode_segments_idx(bytes: &[u8]) -> Result<Vec<(u32, Vec<String>)>, String> {
    if bytes.len() < 20 {
        return Err(format!("short file: {} bytes", bytes.len()));
    }
    let mut h = crc32(&bytes[0..16]);
    let stored = u32::from_le_bytes(bytes[16..20].try_into().unwrap());
    if h != stored {
        h = stored; // keep going only to produce a precise message
        return Err(format!("header crc mismatch (stored {:08x})", h));
    }
    let b = &bytes[20..];
    let mut i = 0usize;
    let rd_u64 = |b: &[u8], i: &mut usize| -> Result<u64, String> {
        if *i + 8 > b.len() {
            return Err("truncated".into());
        }
        let v = u64::from_le_bytes(b[*i..*i + 8].try_into().unwrap());
        *i += 8;
        Ok(v)
    };
    let n = rd_u64(b, &mut i)? as usize;
    if n > 1_000_000 {
        return Err(format!("implausible entry count {}", n));
    }
    let mut out = vec![];
    for _ in 0..n {
        if i + 4 > b.len() {
            return Err("truncated".into());
        }
        let id = u32::from_le_bytes(b[i..i + 4].try_into().unwrap());
        i += 4;
        let m = rd_u64(b, &mut i)? as usize;
        if m > 100_000 {
            return Err("implausible uid count".into());
        }
        let mut uids = vec![];
        for _ in 0..m {
            let l = rd_u64(b, &mut i)? as usize;
            if i + l > b.len() {
                return Err("truncated".into());
            }
            uids.push(String::from_utf8_lossy(&b[i..i + l]).to_string());
            i += l;
        }
        out.push((id, uids));
    }
    if i != b.len() {
        return Err(format!("{} trailing bytes", b.len() - i));
    }
    Ok(out)
}

fn crc32(data: &[u8]) -> u32 {
    // CRC-32 (IEEE), bitwise
    let mut crc: u32 = 0xFFFF_FFFF;
    for &byte in data {
        crc ^= byte as u32;
        for _ in 0..8 {
            let mask = (!(crc & 1)).wrapping_add(1);
            crc = (crc >> 1) ^ (0xEDB8_8320 & mask);
        }
    }
    !crc
}

fn dir_identity(dir: &Path) -> (u64, u128) {
    use std::os::unix::fs::MetadataExt;
    match std::fs::metadata(dir) {
        Ok(m) => (
            m.ino(),
            m.created().ok().and_then(|t| t.duration_since(std::time::UNIX_EPOCH).ok()).map(|d| d.as_nanos()).unwrap_or(0),
        ),
        Err(_) => (0, 0),
    }
}

fn hash_dir(dir: &Path) -> FileSet {
    let mut out = FileSet::new();
    if let Ok(rd) = std::fs::read_dir(dir) {
        for e in rd.flatten() {
            let p = e.path();
            if p.is_file() {
                if let Ok(bytes) = std::fs::read(&p) {
                    let mut h = Sha256::new();
                    h.update(&bytes);
                    out.insert(e.file_name().to_string_lossy().to_string(), (bytes.len() as u64, hex::encode(&h.finalize()[..8])));
                }
            }
        }
    }
    out
}

impl Monitor {
    pub fn new(root: &Path, shards: usize) -> Monitor {
        Monitor {
            root: root.to_path_buf(),
            shards,
            first: vec![BTreeMap::new(); shards],
            ident: vec![BTreeMap::new(); shards],
            tolerate_empty_orphan: false,
            tolerated: 0,
            gone: vec![BTreeSet::new(); shards],
            snapshots: 0,
            segments_seen: 0,
            id_reuse_seen: false,
            tolerate_id_reuse: false,
        }
    }

    /// Returns a failure (signature, detail) if an invariant is broken at this snapshot.
    pub fn snapshot(&mut self, db: &mut Db, what: &str, after_restart: bool) -> Option<(String, Value)> {
        self.snapshots += 1;
        for s in 0..self.shards {
            let sdir = self.root.join("cols").join(format!("shard-{}", s));
            // I3: the index always decodes
            let idx_path = sdir.join("segments.idx");
            let mut indexed: BTreeMap<String, Vec<String>> = BTreeMap::new();
            if idx_path.exists() {
                match std::fs::read(&idx_path).map_err(|e| e.to_string()).and_then(|b| decode_segments_idx(&b)) {
                    Ok(entries) => {
                        for (id, uids) in entries {
                            indexed.insert(format!("{:05}", id), uids);
                        }
                    }
                    Err(e) => {
                        return Some(("index-undecodable".into(), json!({"at": what, "shard": s, "error": e, "log": db.log})));
                    }
                }
            }
            let live: BTreeSet<String> = match db.live(s) {
                Ok(l) => l.into_iter().collect(),
                Err(_) => return None,
            };
            let mut visible: BTreeSet<String> = indexed.keys().cloned().collect();
            visible.extend(live.iter().cloned());
            for label in &visible {
                let dir = sdir.join(label);
                let files = hash_dir(&dir);
                // I4: a named segment is complete
                let uids: Vec<String> = match indexed.get(label) {
                    Some(u) => u.clone(),
                    None => files.keys().filter_map(|f| f.strip_suffix(".zones").map(|u| u.to_string())).collect(),
                };
                if !dir.is_dir() {
                    return Some(("named-segment-missing".into(), json!({"at": what, "shard": s, "segment": label, "in_index": indexed.contains_key(label), "in_live_list": live.contains(label), "log": db.log})));
                }
                if files.is_empty() && indexed.get(label).is_none() && self.tolerate_empty_orphan {
                    // open known finding: an empty directory left behind is listed as live after a restart
                    self.tolerated += 1;
                    continue;
                }
                if uids.is_empty() && indexed.get(label).is_none() {
                    return Some(("named-segment-incomplete".into(), json!({"at": what, "shard": s, "segment": label, "files": files.keys().collect::<Vec<_>>(), "why": "live-listed directory without any complete event type", "in_live_list": live.contains(label), "after_restart": after_restart, "log": db.log})));
                }
                for u in &uids {
                    for suffix in [".zones", ".idx", ".icx"] {
                        let f = format!("{}{}", u, suffix);
                        if !files.contains_key(&f) {
                            return Some(("named-segment-incomplete".into(), json!({"at": what, "shard": s, "segment": label, "missing": f, "files": files.keys().collect::<Vec<_>>(), "in_index": indexed.contains_key(label), "in_live_list": live.contains(label), "after_restart": after_restart, "log": db.log})));
                        }
                    }
                    if !files.keys().any(|f| f.starts_with(&format!("{}_", u)) && f.ends_with(".col")) {
                        return Some(("named-segment-incomplete".into(), json!({"at": what, "shard": s, "segment": label, "missing": "column files", "log": db.log})));
                    }
                }
                // I2: fresh ids
                if self.gone[s].contains(label) && !self.first[s].contains_key(label) {
                    self.id_reuse_seen = true;
                    if !self.tolerate_id_reuse {
                        return Some(("segment-id-reused".into(), json!({"at": what, "shard": s, "segment": label, "log": db.log})));
                    }
                    self.gone[s].remove(label);
                }
                // I1: immutable while visible
                let ident_now = dir_identity(&dir);
                match self.first[s].get(label) {
                    None => {
                        self.first[s].insert(label.clone(), files);
                        self.ident[s].insert(label.clone(), ident_now);
                        self.segments_seen += 1;
                    }
                    Some(f0) => {
                        if *f0 != files {
                            if self.ident[s].get(label) != Some(&ident_now) {
                                // another directory under the same name: retired and re-created between
                                // two snapshots (id reuse, I2)
                                self.id_reuse_seen = true;
                                if !self.tolerate_id_reuse {
                                    return Some(("segment-id-reused".into(), json!({"at": what, "shard": s, "segment": label, "log": db.log})));
                                }
                                self.first[s].insert(label.clone(), files);
                                self.ident[s].insert(label.clone(), ident_now);
                            } else {
                                let changed: Vec<String> = files.iter().filter(|(k, v)| f0.get(*k) != Some(v)).map(|(k, _)| k.clone()).chain(f0.keys().filter(|k| !files.contains_key(*k)).cloned()).collect();
                                return Some(("visible-segment-changed".into(), json!({"at": what, "shard": s, "segment": label, "changed_files": changed, "log": db.log})));
                            }
                        }
                    }
                }
            }
            // segments that stopped being visible
            let vanished: Vec<String> = self.first[s].keys().filter(|l| !visible.contains(*l)).cloned().collect();
            for l in vanished {
                self.first[s].remove(&l);
                self.gone[s].insert(l);
            }
        }
        None
    }
}

fn run_case(c: &Case, rep: &mut CaseReport) -> Verdict {
    match c01::run_history(c, rep, "c11", true) {
        Ok((run, fail)) => {
            let m = run.snapshots.as_ref().unwrap();
            rep.sub_evals += m.snapshots as u64;
            rep.excluded_known += m.tolerated;
            if run.lifetimes > 1 && m.segments_seen >= 3 {
                rep.nontrivial = true;
            }
            rep.sample = Some(json!({"ops": c.ops.len(), "snapshots": m.snapshots, "segments_seen": m.segments_seen, "lifetimes": run.lifetimes, "crashes": run.crashes}));
            match fail {
                // only the monitor's own signatures are C11's business; content failures belong to C01 / C05
                Some((sig, detail)) if is_c11_sig(&sig) => Verdict::fail(sig, detail),
                _ => Verdict::Pass,
            }
        }
        Err(crate::hist::Problem::Db(crate::db::DbError::Timeout)) => {
            rep.inconclusive = Some("watchdog".into());
            Verdict::Discard("watchdog".into())
        }
        Err(_) => Verdict::Discard("history could not be executed (judged by C01)".into()),
    }
}

// ------------------------------------------------------------------ index atomicity

/// the segment index is replaced atomically: a process death at either step boundary of the index save (flush or
/// compaction) leaves a file that decodes, is not emptier than it has to be, and names only directories that exist.
/// (The other invariants are not judged at these crash points while the findings about crashes inside a flush / a
/// compaction are open; this one does not depend on them: it is read from the file alone, before any restart.)
#[derive(Clone, Debug, serde::Serialize, serde::Deserialize)]
pub struct IdxCase {
    pub epz: usize,
    pub ff: usize,
    pub settled: usize,
    pub renamed: bool,
    pub nth: u32,
    pub compact: bool,
}

fn idx_case_strategy() -> proptest::strategy::BoxedStrategy<IdxCase> {
    use proptest::prelude::*;
    (1usize..=2, 1usize..=2, 1usize..=9, any::<bool>(), 1u32..=3, any::<bool>()).prop_map(|(epz, ff, settled, renamed, nth, compact)| IdxCase { epz, ff, settled, renamed, nth, compact }).boxed()
}

fn run_idx_case(c: &IdxCase, rep: &mut CaseReport) -> Verdict {
    let case = crate::db::CaseDir::new("c11i");
    let cfg = crate::db::DbConfig { shard_count: 1, event_per_zone: c.epz, fill_factor: c.ff, segments_per_merge: 2, ..crate::db::DbConfig::default() };
    let mut db = match Db::open(&case.path, &cfg) {
        Ok(d) => d,
        Err(e) => {
            rep.inconclusive = Some(format!("start: {:?}", e));
            return Verdict::Discard("start failed".into());
        }
    };
    let idx_path = case.path.join("cols").join("shard-0").join("segments.idx");
    let read_idx = |p: &Path| -> Result<Vec<(u32, Vec<String>)>, String> {
        if !p.exists() {
            return Ok(vec![]);
        }
        std::fs::read(p).map_err(|e| e.to_string()).and_then(|b| decode_segments_idx(&b))
    };
    let mut k = crate::hist::K_BASE;
    let mut store = |db: &mut Db| {
        k += 1;
        db.cmd(&format!("STORE ta FOR c{} PAYLOAD {{\"k\": {}, \"x\": 1, \"s\": \"a\"}}", k % 2, k))
    };
    if db.cmd("DEFINE ta FIELDS { \"k\": \"int\", \"x\": \"int\", \"s\": \"string\" }").is_err() {
        return Verdict::Discard("define failed".into());
    }
    for _ in 0..c.settled {
        if store(&mut db).is_err() {
            return Verdict::Discard("store failed".into());
        }
    }
    let _ = db.cmd("FLUSH");
    if db.barrier().is_err() {
        return Verdict::Discard("barrier failed".into());
    }
    let before = match read_idx(&idx_path) {
        Ok(b) => b,
        Err(e) => return Verdict::fail("index-undecodable", json!({"at": "settled", "error": e, "log": db.log})),
    };
    let step = if c.renamed { "segidx.renamed" } else { "segidx.tmp_written" };
    if db.req(json!({"op": "arm_crash", "step": step, "nth": c.nth})).is_err() {
        return Verdict::Discard("arm failed".into());
    }
    // drive index saves until the armed one kills the process
    'drive: for round in 0..8 {
        for _ in 0..(c.epz * c.ff).max(1) {
            if store(&mut db).is_err() {
                break 'drive;
            }
        }
        if db.cmd("FLUSH").is_err() || db.barrier().is_err() {
            break 'drive;
        }
        if c.compact && round % 2 == 1 && db.compact(0).is_err() {
            break 'drive;
        }
    }
    if db.alive {
        return Verdict::Discard("armed step not reached".into());
    }
    rep.label(format!("crash-step:{}", step));
    rep.sub_evals += 1;
    match read_idx(&idx_path) {
        Err(e) => Verdict::fail("index-undecodable", json!({"at": format!("after the death at {} (nth {})", step, c.nth), "error": e, "len": std::fs::metadata(&idx_path).map(|m| m.len()).unwrap_or(0), "entries_before": before.len(), "log": db.log})),
        Ok(now) => {
            if !before.is_empty() && now.is_empty() {
                return Verdict::fail("index-undecodable", json!({"at": format!("after the death at {}", step), "error": "the index names no segment although segments were published before", "log": db.log}));
            }
            for (id, _) in &now {
                let d = case.path.join("cols").join("shard-0").join(format!("{:05}", id));
                if !d.is_dir() {
                    return Verdict::fail("named-segment-missing", json!({"at": format!("after the death at {}", step), "segment": id, "log": db.log}));
                }
            }
            rep.nontrivial = true;
            Verdict::Pass
        }
    }
}

pub static TOLERATE_EMPTY_ORPHAN: std::sync::atomic::AtomicBool = std::sync::atomic::AtomicBool::new(false);
pub static TOLERATE_ID_REUSE: std::sync::atomic::AtomicBool = std::sync::atomic::AtomicBool::new(false);

pub fn is_c11_sig(sig: &str) -> bool {
    matches!(sig, "index-undecodable" | "named-segment-missing" | "named-segment-incomplete" | "segment-id-reused" | "visible-segment-changed")
}

pub fn replay(check: &str, case: &Value) -> Verdict {
    if check == "index-atomicity" {
        return match serde_json::from_value::<IdxCase>(case.clone()) {
            Ok(c) => run_idx_case(&c, &mut CaseReport::default()),
            Err(e) => Verdict::Discard(format!("bad case: {}", e)),
        };
    }
    match serde_json::from_value::<Case>(case.clone()) {
        Ok(c) => run_case(&c, &mut CaseReport::default()),
        Err(e) => Verdict::Discard(format!("bad case: {}", e)),
    }
}

pub fn run(ctx: &Ctx) -> i32 {
    let stats = Mutex::new(Stats::default());
    let mut report = Report::new(
        "C11",
        "fault_enumeration",
        "the C01 history generator (STORE / FLUSH / compaction / clean restart / SIGKILL / armed crash points); after every command and after every restart a snapshot {decoded segments.idx, live segment list, (len, sha256) of every file of every numeric directory} is taken. Invariants: the index always decodes; every segment named by index or live list exists and is complete (.zones/.idx/.icx + columns per event type); a visible segment's file set and hashes never change; an id that was retired is not used again. Second exploration (index atomicity): a death at either step boundary of the index save of a flush or a compaction, after which segments.idx as it sits on disk must decode, must not have become empty and must name existing directories. Non-trivial: >= 2 lifetimes and >= 3 segments observed.",
    );
    report.assumptions = vec!["observation instants are the gaps between driver commands plus the first instant after every restart".into()];
    replay_known(ctx, &stats, &mut report, &replay);
    replay_regressions(ctx, &stats, &mut report, &replay);
    TOLERATE_ID_REUSE.store(ctx.open("layout.segment_id_reuse"), std::sync::atomic::Ordering::Relaxed);
    TOLERATE_EMPTY_ORPHAN.store(ctx.open("layout.empty_orphan_directory"), std::sync::atomic::Ordering::Relaxed);
    let mut cl = c01::classes(ctx);
    // only the monitor's own signatures are judged here, so several event types per history are fine although C01
    // restricts itself to one while C05's partial-drain finding is open
    cl.single_type = false;
    // C11 has its own finding classes
    cl.excl_flush_steps = ctx.open("crash.step_in_flush");
    cl.excl_compact_steps = ctx.open("crash.step_in_compaction");
    cl.excl_id_drift = false;
    cl.excl_wal_steps = cl.excl_flush_steps;
    cl.excl_store_after_restart = false;
    cl.excl_compact_restart = false;
    let cases = ctx.tier.pick(200, 1200);
    if let Some(f) = explore(ctx, "snapshots", || c01::case_strategy(ctx.tier, cl, 2), Explore { cases, max_shrink_iters: ctx.tier.pick(80, 400), lanes: ctx.lanes }, &stats, run_case) {
        report.violations.push(f);
    }
    if report.violations.is_empty() {
        if let Some(f) = explore(ctx, "index-atomicity", idx_case_strategy, Explore { cases: ctx.tier.pick(48, 400), max_shrink_iters: 60, lanes: ctx.lanes }, &stats, run_idx_case) {
            report.violations.push(f);
        }
    }
    finish(ctx, stats.into_inner().unwrap(), report)
}
